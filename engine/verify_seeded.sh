#!/bin/bash
# verify_seeded.sh <id> <deliverable-dir> : confirm a seeded change independently of its author.
# Clean scratch worktree of /repo HEAD; the patch applies; the repository's suite gives 70 passed + the 2
# baseline failures; the demonstration FAILS with the patch and PASSES without it. Prints one line.
set -uo pipefail
id="$1"; out="$2"
W="${VERIFY_SCRATCH:-/tmp/wt/verify}/$id"
rm -rf "$W"; git -C /repo worktree prune
git -C /repo worktree add -q --detach "$W" HEAD || { echo "$id: worktree failed"; exit 2; }
export CARGO_NET_OFFLINE=true CARGO_TARGET_DIR="$W/target"
cd "$W"
if ! git apply "$out/patch.diff"; then echo "$id: PATCH DOES NOT APPLY"; exit 1; fi
suite=$(cargo test --offline --lib 2>&1 | grep -E "^test result" | head -1)
mkdir -p tests; cp "$out/demo.rs" tests/demo.rs
with=$(cargo test --offline --test demo 2>&1 | grep -E "^test result|error(\[|:)" | head -2 | tr '\n' ' ')
git checkout -q -- src
without=$(cargo test --offline --test demo 2>&1 | grep -E "^test result|error(\[|:)" | head -2 | tr '\n' ' ')
echo "$id: suite[$suite] demo-with[$with] demo-without[$without]"
cd /; git -C /repo worktree remove --force "$W"
