//! parking_lot shim for the concurrent simulation build.
//!
//! * `Mutex` = `shuttle::sync::Mutex` without poisoning.
//! * `RwLock` reproduces the part of parking_lot's policy that matters for deadlocks: a waiting
//!   writer blocks new readers (so a recursive read with a writer queued in between deadlocks here
//!   exactly as it does in production).
//! * every acquire / release reports to an optional observer (lock id = creation order), which is
//!   how the harness names locks and builds the held->acquired graph without a source hook.

use std::cell::UnsafeCell;
use std::ops::{Deref, DerefMut};
use std::sync::atomic::{AtomicUsize, Ordering};

use shuttle::sync::{Condvar, Mutex as SMutex, MutexGuard as SMutexGuard};

#[derive(Clone, Copy, Debug, PartialEq, Eq)]
pub enum LockOp {
    /// about to block / acquire
    Acquire,
    Acquired,
    Released,
}
#[derive(Clone, Copy, Debug, PartialEq, Eq)]
pub enum LockKind {
    Mutex,
    Read,
    Write,
}

pub type Observer = fn(LockOp, LockKind, usize);

static OBSERVER: AtomicUsize = AtomicUsize::new(0);
static NEXT_ID: AtomicUsize = AtomicUsize::new(0);

pub fn set_observer(o: Option<Observer>) {
    OBSERVER.store(o.map_or(0, |f| f as usize), Ordering::SeqCst);
}
/// lock ids restart at 0 (call at the start of every execution)
pub fn reset_ids() {
    NEXT_ID.store(0, Ordering::SeqCst);
}
fn observe(op: LockOp, kind: LockKind, id: usize) {
    let p = OBSERVER.load(Ordering::Relaxed);
    if p != 0 {
        let f: Observer = unsafe { std::mem::transmute(p) };
        f(op, kind, id);
    }
}
fn next_id() -> usize {
    NEXT_ID.fetch_add(1, Ordering::SeqCst)
}

// ------------------------------------------------------------------------------------------

pub struct Mutex<T: ?Sized> {
    id: usize,
    inner: SMutex<T>,
}

pub struct MutexGuard<'a, T: ?Sized> {
    id: usize,
    inner: Option<SMutexGuard<'a, T>>,
}

impl<T> Mutex<T> {
    pub fn new(t: T) -> Self {
        Mutex { id: next_id(), inner: SMutex::new(t) }
    }
    pub fn into_inner(self) -> T {
        match self.inner.into_inner() {
            Ok(t) => t,
            Err(e) => e.into_inner(),
        }
    }
}

impl<T: ?Sized> Mutex<T> {
    pub fn lock(&self) -> MutexGuard<'_, T> {
        observe(LockOp::Acquire, LockKind::Mutex, self.id);
        let g = match self.inner.lock() {
            Ok(g) => g,
            Err(e) => e.into_inner(),
        };
        observe(LockOp::Acquired, LockKind::Mutex, self.id);
        MutexGuard { id: self.id, inner: Some(g) }
    }
}

impl<T: Default> Default for Mutex<T> {
    fn default() -> Self {
        Mutex::new(T::default())
    }
}

impl<T: ?Sized> Deref for MutexGuard<'_, T> {
    type Target = T;
    fn deref(&self) -> &T {
        self.inner.as_ref().unwrap()
    }
}
impl<T: ?Sized> DerefMut for MutexGuard<'_, T> {
    fn deref_mut(&mut self) -> &mut T {
        self.inner.as_mut().unwrap()
    }
}
impl<T: ?Sized> Drop for MutexGuard<'_, T> {
    fn drop(&mut self) {
        drop(self.inner.take());
        observe(LockOp::Released, LockKind::Mutex, self.id);
    }
}

// ------------------------------------------------------------------------------------------

#[derive(Default)]
struct RwState {
    readers: usize,
    writer: bool,
    writers_waiting: usize,
}

pub struct RwLock<T: ?Sized> {
    id: usize,
    state: SMutex<RwState>,
    cv: Condvar,
    data: UnsafeCell<T>,
}

unsafe impl<T: ?Sized + Send> Send for RwLock<T> {}
unsafe impl<T: ?Sized + Send + Sync> Sync for RwLock<T> {}

pub struct RwLockReadGuard<'a, T: ?Sized> {
    lock: &'a RwLock<T>,
}
pub struct RwLockWriteGuard<'a, T: ?Sized> {
    lock: &'a RwLock<T>,
}

unsafe impl<T: ?Sized + Sync> Sync for RwLockReadGuard<'_, T> {}
unsafe impl<T: ?Sized + Sync> Sync for RwLockWriteGuard<'_, T> {}

impl<T> RwLock<T> {
    pub fn new(t: T) -> Self {
        RwLock { id: next_id(), state: SMutex::new(RwState::default()), cv: Condvar::new(), data: UnsafeCell::new(t) }
    }
    pub fn into_inner(self) -> T {
        self.data.into_inner()
    }
}

impl<T: Default> Default for RwLock<T> {
    fn default() -> Self {
        RwLock::new(T::default())
    }
}

impl<T: ?Sized> RwLock<T> {
    fn st(&self) -> SMutexGuard<'_, RwState> {
        match self.state.lock() {
            Ok(g) => g,
            Err(e) => e.into_inner(),
        }
    }

    pub fn read(&self) -> RwLockReadGuard<'_, T> {
        observe(LockOp::Acquire, LockKind::Read, self.id);
        let mut st = self.st();
        // writer preference: a queued writer blocks new readers
        while st.writer || st.writers_waiting > 0 {
            st = match self.cv.wait(st) {
                Ok(g) => g,
                Err(e) => e.into_inner(),
            };
        }
        st.readers += 1;
        drop(st);
        observe(LockOp::Acquired, LockKind::Read, self.id);
        RwLockReadGuard { lock: self }
    }

    pub fn write(&self) -> RwLockWriteGuard<'_, T> {
        observe(LockOp::Acquire, LockKind::Write, self.id);
        let mut st = self.st();
        st.writers_waiting += 1;
        while st.writer || st.readers > 0 {
            st = match self.cv.wait(st) {
                Ok(g) => g,
                Err(e) => e.into_inner(),
            };
        }
        st.writers_waiting -= 1;
        st.writer = true;
        drop(st);
        observe(LockOp::Acquired, LockKind::Write, self.id);
        RwLockWriteGuard { lock: self }
    }
}

impl<T: ?Sized> Deref for RwLockReadGuard<'_, T> {
    type Target = T;
    fn deref(&self) -> &T {
        unsafe { &*self.lock.data.get() }
    }
}
impl<T: ?Sized> Drop for RwLockReadGuard<'_, T> {
    fn drop(&mut self) {
        let mut st = self.lock.st();
        st.readers -= 1;
        let wake = st.readers == 0;
        drop(st);
        if wake {
            self.lock.cv.notify_all();
        }
        observe(LockOp::Released, LockKind::Read, self.lock.id);
    }
}
impl<T: ?Sized> Deref for RwLockWriteGuard<'_, T> {
    type Target = T;
    fn deref(&self) -> &T {
        unsafe { &*self.lock.data.get() }
    }
}
impl<T: ?Sized> DerefMut for RwLockWriteGuard<'_, T> {
    fn deref_mut(&mut self) -> &mut T {
        unsafe { &mut *self.lock.data.get() }
    }
}
impl<T: ?Sized> Drop for RwLockWriteGuard<'_, T> {
    fn drop(&mut self) {
        let mut st = self.lock.st();
        st.writer = false;
        drop(st);
        self.lock.cv.notify_all();
        observe(LockOp::Released, LockKind::Write, self.lock.id);
    }
}
