#!/bin/bash
# run_mutants.sh [name-pattern] : sensitivity proof (DESIGN.md §4). For every patch in /verif/mutants:
# apply it to a scratch worktree of $CASIM_REPO_ORIG (default /repo) outside /repo and /verif, run the
# targeted property's quick check against that copy, expect exit 1 with a VIOLATION line.
# Results: /verif/evidence/sensitivity.json. Scratch data is removed at the end.
set -uo pipefail
HERE="$(cd "$(dirname "$0")" && pwd)"; VERIF="$(dirname "$HERE")"
PAT="${1:-}"
WITH_TESTS="${WITH_TESTS:-0}"
SCR="${MUT_SCRATCH:-/dev/shm/casim-mutants}"
REPO="${CASIM_REPO_ORIG:-/repo}"
rm -rf "$SCR"; mkdir -p "$SCR"
git -C "$REPO" worktree prune
git -C "$REPO" worktree add -q --detach "$SCR/src" HEAD || exit 2
mkdir -p "$SCR/verif"; cp "$VERIF/known_findings.json" "$SCR/verif/"
results="$SCR/results.jsonl"; : > "$results"
for p in "$VERIF"/mutants/*${PAT}*.patch; do
  name=$(basename "$p" .patch)
  prop=$(sed -n 's/^# property: //p' "$p" | head -1)
  git -C "$SCR/src" checkout -q -- . ; git -C "$SCR/src" clean -fdq -e target
  if ! git -C "$SCR/src" apply "$p" 2>"$SCR/apply.err"; then echo "$name: patch does not apply"; echo "{\"mutant\":\"$name\",\"property\":\"$prop\",\"status\":\"patch-does-not-apply\"}" >> "$results"; continue; fi
  tests="skipped"
  if [ "$WITH_TESTS" = 1 ]; then
    if (cd "$SCR/src" && CARGO_TARGET_DIR="$SCR/test-target" cargo test --offline --no-fail-fast 2>&1 | grep -q "70 passed; 2 failed"); then tests="pass"; else tests="FAIL"; fi
  fi
  start=$(date +%s)
  out=$(CASIM_REPO="$SCR/src" CASIM_BUILD_DIR="$SCR/build" CASIM_TARGET_DIR="$SCR/target" CASIM_VERIF_DIR="$SCR/verif" "$VERIF/check" "$prop" ${MUT_ARGS:-} 2>&1); rc=$?
  secs=$(( $(date +%s) - start ))
  cls=$(echo "$out" | grep -m1 "class=" | sed 's/^ *class=\([^ ]*\).*/\1/')
  echo "$name [$prop] rc=$rc tests=$tests ${secs}s class=$cls"
  python3 - "$name" "$prop" "$rc" "$tests" "$secs" "$cls" >> "$results" <<'PY'
import json,sys
n,p,rc,t,s,c=sys.argv[1:7]
print(json.dumps({"mutant":n,"property":p,"exit_code":int(rc),"detected":int(rc)==1,"baseline_tests":t,"seconds":int(s),"first_class":c}))
PY
done
python3 - "$results" "$VERIF/evidence/sensitivity.json" "$PAT" <<'PY'
import json,sys
rows=[json.loads(l) for l in open(sys.argv[1])]
if not sys.argv[3]:
    json.dump({"what":"own mutants (mutants/*.patch): quick check of the targeted property run against a scratch copy with the patch applied","mutants":rows,"detected":sum(1 for r in rows if r.get("detected")),"total":len(rows)}, open(sys.argv[2],"w"), indent=1)
print("detected", sum(1 for r in rows if r.get("detected")), "of", len(rows))
PY
git -C "$REPO" worktree remove --force "$SCR/src" 2>/dev/null
rm -rf "$SCR"
