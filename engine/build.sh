#!/bin/bash
# build.sh <seq|conc> : (re)generate shadow manifests and build the harness from $CASIM_REPO's working tree
set -uo pipefail
HERE="$(cd "$(dirname "$0")" && pwd)"
B="${1:-seq}"
export CASIM_BUILD_DIR="${CASIM_BUILD_DIR:-$HERE/build}"
export CARGO_TARGET_DIR="${CASIM_TARGET_DIR:-$HERE/target}"
python3 "$HERE/gen_manifests.py" || { echo "HARNESS-ERROR: manifest generation failed" >&2; exit 2; }
cd "$CASIM_BUILD_DIR/$B" || exit 2
LOG="$CARGO_TARGET_DIR/build-$B.log"
mkdir -p "$CARGO_TARGET_DIR"
if ! CARGO_NET_OFFLINE=true cargo build --release --offline >"$LOG" 2>&1; then
  grep -E '^error' -A12 "$LOG" | head -80 >&2
  echo "HARNESS-ERROR: build of casim-$B failed (log: $LOG)" >&2
  exit 2
fi
