#!/bin/bash
# run_seeded_all.sh <out.jsonl> <seeded-id>... : regression over the independently seeded changes.
# For every id: apply seeded/<id>/patch.diff to a scratch worktree of /repo (never to /repo itself), run
# the quick check of the property that is recorded as catching it (meta.json: caught_by, else
# breaks_property), expect exit 1. One JSON line per id is appended to <out.jsonl>.
set -uo pipefail
HERE="$(cd "$(dirname "$0")" && pwd)"; VERIF="$(dirname "$HERE")"
out="$1"; shift
export SEEDED_SCRATCH="${SEEDED_SCRATCH:-/dev/shm/casim-seeded-all}"
for id in "$@"; do
  meta="$VERIF/seeded/$id/meta.json"
  [ -f "$meta" ] || { echo "$id: no meta.json"; continue; }
  prop=$(python3 - "$meta" <<'PY'
import json,re,sys
m=json.load(open(sys.argv[1]))
if str(m.get('verdict','')).startswith('not detected'):
    print('SKIP'); sys.exit()
for field in ('caught_by','breaks_property'):
    x=re.search(r'C\d\d', str(m.get(field,'')))
    if x:
        print(x.group(0)); break
PY
)
  if [ "$prop" = SKIP ] || [ -z "$prop" ]; then
    echo "{\"id\":\"$id\",\"status\":\"skipped (recorded as not detected / outside the quantifier)\"}" >> "$out"; continue
  fi
  line=$("$HERE/run_seeded_scratch.sh" "$id" "$prop" 2>&1 | tail -1)
  rc=$(echo "$line" | sed -n 's/.* rc=\([0-9]*\) .*/\1/p')
  cls=$(echo "$line" | sed -n 's/.*class=\([^ ]*\).*/\1/p')
  echo "$line" | cut -c1-200
  python3 - "$id" "$prop" "${rc:-99}" "$cls" >> "$out" <<'PY'
import json,sys
i,p,rc,c=sys.argv[1:5]
print(json.dumps({"id":i,"property":p,"exit_code":int(rc),"detected":int(rc)==1,"first_class":c}))
PY
done
