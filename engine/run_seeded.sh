#!/bin/bash
# run_seeded.sh <seeded-id> [property ...] : apply a seeded change to /repo, run the quick check(s), undo it.
set -uo pipefail
VERIF="$(cd "$(dirname "$0")/.." && pwd)"
id="$1"; shift
props="$*"
[ -n "$props" ] || props=$(echo "$id" | cut -d- -f1)
git -C /repo diff --quiet || { echo "/repo has uncommitted changes; refusing"; exit 2; }
git -C /repo apply "$VERIF/seeded/$id/patch.diff" || exit 2
trap 'git -C /repo checkout -- . ' EXIT
for p in $props; do
  start=$(date +%s)
  out=$(CASIM_VERIF_DIR=/dev/shm/casim-seeded-verif "$VERIF/check" "$p" ${SEEDED_ARGS:-} 2>&1); rc=$?
  echo "$id [$p] rc=$rc $(( $(date +%s) - start ))s $(echo "$out" | grep -m1 'class=' | cut -c1-220)"
done
