//! C08 (sequential part): crash images + planted garbage (F-forge at rest); the start-up scan must
//! be exact and the clean-up must remove exactly the reported garbage and nothing else.

use std::collections::{BTreeMap, BTreeSet};
use std::panic::{catch_unwind, AssertUnwindSafe};
use std::sync::Arc;

use crate::case::{Case, Outcome};
use crate::decode;
use crate::exec::{fail, panic_msg, Failure, ScanView, World};
use crate::interpose::{self, with_sim};
use crate::keys::SimKey;
use crate::modes::{expected_scan, traced_run, CLOSE_OP, OPEN_OP};
use crate::rng::{mix, Rng};
use crate::seqrun::{finish_sim, fresh_dir, remove_dir};
use crate::sim::{Disk, FileNode, Sim};

fn put_file(d: &mut Disk, rel: &str, bytes: Vec<u8>) {
    let parts: Vec<&str> = rel.split('/').collect();
    for i in 1..parts.len() {
        d.dirs.insert(parts[..i].join("/"));
    }
    let b = Arc::new(bytes);
    d.inodes.push(FileNode { cache: b.clone(), durable: b, dirty: false, ever_cas: rel.starts_with("db/cas/") });
    let i = d.inodes.len() - 1;
    d.files.insert(rel.to_string(), i);
}

fn hex32(h: &[u8; 32]) -> String {
    h.iter().map(|b| format!("{b:02x}")).collect()
}

/// what was planted, for the evidence probes
#[derive(Default)]
struct Planted {
    orphans: usize,
    ill_formed: usize,
    shallow: usize,
    deleted: usize,
    resized: usize,
    flipped: usize,
    staging: usize,
    /// index of the workload content at whose hash path a file with *other* bytes was planted
    stale: Option<usize>,
}

fn plant(d: &mut Disk, rng: &mut Rng, referenced: &BTreeMap<[u8; 32], (u32, u64)>, verify: bool, unreferenced: &[(usize, [u8; 32], Arc<Vec<u8>>)]) -> Planted {
    let mut p = Planted::default();
    // a stale file at the path of a content the workload knows but no key references (what a lost
    // write-back leaves behind a durable rename): wrong bytes under a well-formed name. It is an
    // orphan for the scan; committing that content later must put the right bytes there (C18).
    if !unreferenced.is_empty() && rng.chance(1, 2) {
        let (c, h, data) = rng.pick(unreferenced).clone();
        let bytes = match rng.below(4) {
            0 => Vec::new(),
            1 => data[..data.len() / 2].to_vec(),
            2 => {
                let mut b = (*data).clone();
                b.push(0x5a);
                b
            }
            _ => {
                let mut b = (*data).clone();
                if b.is_empty() {
                    b.push(1);
                } else {
                    let pos = rng.below(b.len() as u64) as usize;
                    b[pos] ^= 0x01;
                }
                b
            }
        };
        put_file(d, &format!("db/cas/{}", decode::cas_rel_path(&h)), bytes);
        p.orphans += 1;
        p.stale = Some(c);
    }
    // well-formed names of arbitrary hashes: every byte position at an extreme value in turn, plus random
    let n_orph = rng.below(4);
    for _ in 0..n_orph {
        let mut h = [0u8; 32];
        h.copy_from_slice(&rng.bytes(32));
        match rng.below(4) {
            0 => {
                let pos = rng.below(32) as usize;
                h[pos] = *rng.pick(&[0x00u8, 0x0f, 0xf0, 0xff]);
            }
            1 => h = [*rng.pick(&[0x00u8, 0xff, 0x0f, 0xf0]); 32],
            _ => {}
        }
        if referenced.contains_key(&h) {
            continue;
        }
        let n = rng.below(50) as usize;
        put_file(d, &format!("db/cas/{}", decode::cas_rel_path(&h)), rng.bytes(n));
        p.orphans += 1;
    }
    // ill-formed names at blob depth
    if rng.chance(1, 2) {
        let mut h = [0u8; 32];
        h.copy_from_slice(&rng.bytes(32));
        let hex = hex32(&h);
        let name = match rng.below(6) {
            0 => format!("{}/{}/{}", &hex[0..2], &hex[2..4], &hex[4..63]),       // 59 chars: odd total
            1 => format!("{}/{}/{}x", &hex[0..2], &hex[2..4], &hex[4..63]),      // non-hex character
            2 => format!("{}/{}/{}0", &hex[0..2], &hex[2..4], &hex[4..]),        // 65 digits
            3 => format!("{}/{}/{}", &hex[0..2], &hex[2..4], &hex[4..62]),       // 62 digits
            4 => format!("{}/{}/{}", &hex[0..2], &hex[2..4], hex[4..].to_uppercase()), // not the canonical lower-case form
            _ => format!("{}/{}/{}", &hex[0..3], &hex[3..4], &hex[4..]),         // 3/1/60 split: not the canonical layout
        };
        put_file(d, &format!("db/cas/{name}"), b"junk".to_vec());
        p.ill_formed += 1;
    }
    // stray files directly under cas/ and cas/xx/
    if rng.chance(1, 3) {
        put_file(d, "db/cas/stray.txt", b"x".to_vec());
        p.shallow += 1;
    }
    if rng.chance(1, 3) {
        put_file(d, "db/cas/ab/stray", vec![]);
        p.shallow += 1;
    }
    // damage referenced blobs
    let refs: Vec<[u8; 32]> = referenced.keys().copied().collect();
    if !refs.is_empty() && rng.chance(1, 2) {
        let h = *rng.pick(&refs);
        let path = format!("db/cas/{}", decode::cas_rel_path(&h));
        if let Some(&i) = d.files.get(&path) {
            match rng.below(4) {
                0 => {
                    d.files.remove(&path);
                    p.deleted += 1;
                }
                1 => {
                    let mut b = (*d.inodes[i].cache).clone();
                    if b.is_empty() {
                        b.push(7);
                    } else {
                        // one byte more, one byte less, cut to half, cut to nothing (what a lost
                        // write-back leaves behind a durable rename)
                        match rng.below(4) {
                            0 => b.push(7),
                            1 => {
                                b.pop();
                            }
                            2 => b.truncate(b.len() / 2),
                            _ => b.clear(),
                        }
                    }
                    d.inodes[i].cache = Arc::new(b);
                    p.resized += 1;
                }
                _ => {
                    let mut b = (*d.inodes[i].cache).clone();
                    if !b.is_empty() {
                        let pos = rng.below(b.len() as u64) as usize;
                        b[pos] ^= 0x40;
                        d.inodes[i].cache = Arc::new(b);
                        p.flipped += 1;
                    }
                }
            }
        }
    }
    let _ = verify;
    // leftover staging files and a subdirectory in staging
    let n_st = rng.below(3);
    for j in 0..n_st {
        let n = rng.below(20) as usize;
        put_file(d, &format!("db/staging/.tmpPLANT{j}"), rng.bytes(n));
        p.staging += 1;
    }
    if rng.chance(1, 4) {
        put_file(d, "db/staging/subdir/inner", b"y".to_vec());
    }
    p
}

pub fn run_orphans<K: SimKey>(case: &Case, pseed: u64) -> Outcome {
    let mut out = Outcome::default();
    let mut t = traced_run::<K>(case, &mut out, true);
    if let Some(f) = t.failure.take() {
        out.violation = Some(f);
    }
    let mut sim = std::mem::replace(&mut t.sim, Sim::new(std::path::Path::new("/nonexistent"), 0));
    finish_sim(&mut out, &mut sim, &t.base, true);
    remove_dir(&t.base);
    if out.violation.is_some() || out.harness_error.is_some() {
        return out;
    }
    let wl = &case.workload;
    let mut rng = Rng::new(pseed);
    // images: the final (clean) one and a few crash cuts
    let mut picks: Vec<usize> = vec![t.snaps.len() - 1];
    for _ in 0..3 {
        picks.push(rng.below(t.snaps.len() as u64) as usize);
    }
    picks.sort();
    picks.dedup();
    for si in picks {
        let snap = &t.snaps[si];
        let n = t.models.len() - 1;
        let allowed: Vec<BTreeMap<K, usize>> = if snap.op == OPEN_OP {
            vec![t.models[0].clone()]
        } else if snap.op == CLOSE_OP || snap.op as usize >= n {
            vec![t.models[n].clone()]
        } else {
            vec![t.models[snap.op as usize].clone(), t.models[snap.op as usize + 1].clone()]
        };
        let tag = format!("image cut={} ({} {})", if snap.step == u64::MAX { "final".into() } else { snap.step.to_string() }, snap.call.name(), snap.role);
        out.counters.crash_images += 1;
        if let Err(mut f) = one_image::<K>(case, &snap.disk, &allowed, mix(pseed, si as u64), &tag, &mut out) {
            f.op_index = wl.ops.len().saturating_sub(1);
            out.violation = Some(f);
            break;
        }
    }
    out
}

fn one_image<K: SimKey>(case: &Case, disk: &Disk, allowed: &[BTreeMap<K, usize>], seed: u64, tag: &str, out: &mut Outcome) -> Result<(), Failure> {
    let wl = &case.workload;
    let mut rng = Rng::new(seed);
    let verify = rng.chance(2, 3);
    // first: which model does this image recover to (unplanted)? needed to know what is referenced
    let base0 = fresh_dir();
    disk.materialise(&base0, &BTreeSet::new()).expect("materialise");
    let mut s0 = Sim::new(&base0, 1);
    s0.disk = Disk::from_dir(&base0).expect("image");
    interpose::install(s0);
    let mut w0 = World::<K>::new(&base0, wl);
    w0.cfg.scan = false;
    w0.cfg.fail_on_integrity = false;
    let cfg0 = w0.cfg.clone();
    let r0 = catch_unwind(AssertUnwindSafe(|| w0.open_raw(&cfg0)));
    let items = match r0 {
        Ok(Ok(())) => w0.observe_items().unwrap_or_default(),
        _ => {
            w0.close();
            let _ = interpose::uninstall();
            remove_dir(&base0);
            // an image that does not even open is C03's business
            return Err(fail(&["C03"], "recovery-failed", 0, format!("{tag}: the unplanted image does not open")));
        }
    };
    w0.close();
    let recovered_disk = interpose::uninstall().expect("sim").disk;
    remove_dir(&base0);
    let mut model = None;
    for m in allowed {
        w0.model = m.clone();
        if w0.expected_observed().items == items {
            model = Some(m.clone());
            break;
        }
    }
    let Some(model) = model else {
        return Err(fail(&["C03"], "recovered-state", 0, format!("{tag}: recovered keys match none of the allowed states")));
    };
    w0.model = model.clone();
    let referenced = w0.expected_blobs();

    // plant garbage on the recovered (post-recovery) directory: recovery has already checkpointed
    let mut img = recovered_disk.clone();
    let unreferenced: Vec<(usize, [u8; 32], Arc<Vec<u8>>)> = (0..w0.contents.len())
        .filter(|&c| !referenced.contains_key(&w0.hashes[c]) && w0.contents[c].len() <= 200_000)
        .map(|c| (c, w0.hashes[c], w0.contents[c].clone()))
        .collect();
    let planted = plant(&mut img, &mut rng, &referenced, verify, &unreferenced);
    *out.site_counts.entry("planted:stale-bytes-at-known-hash-path".into()).or_insert(0) += planted.stale.is_some() as u64;
    *out.site_counts.entry("planted:orphans".into()).or_insert(0) += planted.orphans as u64;
    *out.site_counts.entry("planted:ill-formed-names".into()).or_insert(0) += planted.ill_formed as u64;
    *out.site_counts.entry("planted:shallow-stray".into()).or_insert(0) += planted.shallow as u64;
    *out.site_counts.entry("planted:blob-deleted".into()).or_insert(0) += planted.deleted as u64;
    *out.site_counts.entry("planted:blob-resized".into()).or_insert(0) += planted.resized as u64;
    *out.site_counts.entry("planted:blob-flipped".into()).or_insert(0) += planted.flipped as u64;
    *out.site_counts.entry("planted:staging".into()).or_insert(0) += planted.staging as u64;

    let base = fresh_dir();
    img.materialise(&base, &BTreeSet::new()).expect("materialise");
    let mut sim = Sim::new(&base, 2);
    sim.disk = Disk::from_dir(&base).expect("image");
    sim.mon.cas_immutable = true;
    sim.mon.own = case.property.clone();
    interpose::install(sim);
    let mut w = World::<K>::new(&base, wl);
    w.cfg.scan = true;
    w.cfg.verify = verify;
    w.cfg.fail_on_integrity = false;
    w.keep_stats = true;
    w.exact_files = false;
    w.model = model;
    let cfg = w.cfg.clone();
    let res = (|| -> Result<(), Failure> {
        match catch_unwind(AssertUnwindSafe(|| w.open_raw(&cfg))) {
            Err(p) => return Err(fail(&["C08"], "scan-panicked", 0, format!("{tag}: open_with_recover panicked on planted garbage: {}", panic_msg(p)))),
            Ok(Err(e)) => return Err(fail(&["C08"], "scan-failed", 0, format!("{tag}: open_with_recover failed on planted garbage: {e}"))),
            Ok(Ok(())) => {}
        }
        let scan = w.last_scan.clone().expect("scan enabled");
        let exp = expected_scan(&w, verify);
        if scan.dup_entries {
            return Err(fail(&["C08"], "scan-duplicates", 0, format!("{tag}: a scan list contains duplicates: {scan:?}")));
        }
        if scan != exp {
            return Err(fail(&["C08"], "scan-inexact", 0, format!("{tag} verify={verify}: scan differs from the checker's own directory/index comparison:\n{}", diff_scan(&scan, &exp))));
        }
        out.fingerprints.push(mix(
            mix(scan.orphaned.len() as u64, scan.invalid.len() as u64),
            mix(mix(scan.missing.len() as u64, scan.corrupted.len() as u64), mix(scan.staging.len() as u64, scan.total_blobs as u64)),
        ));
        // ---- instead of a clean-up: commit the content whose path holds stale bytes --------------
        if let Some(c) = planted.stale {
            // (only when no referenced blob was damaged: the restart below reads every key)
            if planted.deleted + planted.resized + planted.flipped == 0 && rng.chance(2, 3) {
                *out.site_counts.entry("probe:commit-over-stale-path".into()).or_insert(0) += 1;
                let k = rng.below(w.keys.len() as u64) as usize;
                let chunks = crate::gen::gen_chunks(&mut rng, w.contents[c].len());
                let st = w.stats.take();
                interpose::enter(|| drop(st));
                let own = |mut f: Failure| {
                    f.props = vec!["C18".into()];
                    f.class = format!("stale-path:{}", f.class);
                    f.message = format!("{tag}: a file with other bytes sat at the path of content {c}'s hash before it was committed: {}", f.message);
                    f
                };
                w.step_checked(0, &crate::gen::Op::Put { k, c, chunks, abort: false }).map_err(own)?;
                w.step_checked(0, &crate::gen::Op::Get { k }).map_err(own)?;
                let path = format!("db/cas/{}", decode::cas_rel_path(&w.hashes[c]));
                let on_disk = with_sim(|s| s.disk.bytes(&path).map(|b| b.to_vec()));
                if on_disk.as_deref() != Some(w.contents[c].as_slice()) {
                    return Err(fail(&["C18"], "stale-path:file-bytes", 0, format!("{tag}: after committing content {c} the file at the path derived from its hash holds {:?} bytes, not the {} committed", on_disk.map(|b| b.len()), w.contents[c].len())));
                }
                // and it stays so across a restart
                w.step_checked(0, &crate::gen::Op::Reopen).map_err(own)?;
                w.step_checked(0, &crate::gen::Op::Get { k }).map_err(own)?;
                return Ok(());
            }
        }
        // ---- clean-up ---------------------------------------------------------------------------
        let which = rng.below(3);
        let qdir = w.base.join("q");
        // a quarantine directory that is not empty: it already holds a file under the name of one of the
        // orphans (left by an earlier, interrupted quarantine of the same content). The orphan must
        // still leave cas/ and end up there with its own bytes (seeded change C08-e).
        if which == 1 && rng.chance(1, 2) {
            if let Some(h) = exp.orphaned.iter().next() {
                let name = qdir.join(hex32(h));
                let r = interpose::enter(|| std::fs::create_dir_all(&qdir).and_then(|_| std::fs::write(&name, b"left by an earlier quarantine")));
                if let Err(e) = r {
                    return Err(fail(&["C08"], "harness-plant", 0, format!("{tag}: could not pre-populate the quarantine directory: {e}")));
                }
                *out.site_counts.entry("probe:quarantine-name-collision".into()).or_insert(0) += 1;
            }
        }
        let before = with_sim(|s| crate::exec::disk_image(&s.disk));
        let st = w.stats.take().expect("stats kept");
        let cleanup_res: Result<(), Failure> = (|| {
            match which {
                0 => {
                    let r = catch_unwind(AssertUnwindSafe(|| interpose::enter(|| st.delete_orphans())));
                    let r = match r {
                        Err(p) => return Err(fail(&["C08"], "cleanup-panicked", 0, format!("{tag}: delete_orphans panicked: {}", panic_msg(p)))),
                        Ok(Err(e)) => return Err(fail(&["C08"], "cleanup-failed", 0, format!("{tag}: delete_orphans failed: {e}"))),
                        Ok(Ok(r)) => r,
                    };
                    if r.orphans_deleted != exp.orphaned.len() || r.invalid_files_removed != exp.invalid.len() || r.staging_files_removed != exp.staging.len() || r.orphans_skipped != 0 || r.orphans_quarantined != 0 || !r.errors.is_empty() {
                        return Err(fail(&["C08"], "cleanup-counters", 0, format!("{tag}: delete_orphans reported {r:?}, expected deleted={} invalid={} staging={} and nothing else", exp.orphaned.len(), exp.invalid.len(), exp.staging.len())));
                    }
                    let after = with_sim(|s| crate::exec::disk_image(&s.disk));
                    let mut want = before.clone();
                    for h in &exp.orphaned {
                        want.remove(&format!("db/cas/{}", decode::cas_rel_path(h)));
                    }
                    for p in exp.invalid.iter().chain(exp.staging.iter()) {
                        want.remove(p);
                    }
                    if after != want {
                        return Err(fail(&["C08"], "cleanup-effect", 0, format!("{tag}: after delete_orphans the directory is not 'before minus the reported garbage':\n{}", diff_image(&after, &want))));
                    }
                    Ok(())
                }
                1 => {
                    let r = catch_unwind(AssertUnwindSafe(|| interpose::enter(|| st.quarantine_orphans(&qdir))));
                    let r = match r {
                        Err(p) => return Err(fail(&["C08"], "cleanup-panicked", 0, format!("{tag}: quarantine_orphans panicked: {}", panic_msg(p)))),
                        Ok(Err(e)) => return Err(fail(&["C08"], "cleanup-failed", 0, format!("{tag}: quarantine_orphans failed: {e}"))),
                        Ok(Ok(r)) => r,
                    };
                    if r.orphans_quarantined != exp.orphaned.len() || r.orphans_deleted != 0 || r.orphans_skipped != 0 || !r.errors.is_empty() {
                        return Err(fail(&["C08"], "cleanup-counters", 0, format!("{tag}: quarantine_orphans reported {r:?}, expected quarantined={}", exp.orphaned.len())));
                    }
                    let after = with_sim(|s| crate::exec::disk_image(&s.disk));
                    let mut want = before.clone();
                    want.insert("q/".into(), (0, [0; 32]));
                    for h in &exp.orphaned {
                        if let Some(v) = want.remove(&format!("db/cas/{}", decode::cas_rel_path(h))) {
                            want.insert(format!("q/{}", hex32(h)), v);
                        }
                    }
                    if after != want {
                        return Err(fail(&["C08"], "cleanup-effect", 0, format!("{tag}: after quarantine_orphans the orphans are not in the quarantine directory under their hex names with identical bytes (or something else changed):\n{}", diff_image(&after, &want))));
                    }
                    Ok(())
                }
                _ => {
                    // delete_orphan(h) for one reported orphan and for one referenced blob (must refuse)
                    let mut want = before.clone();
                    if let Some(h) = exp.orphaned.iter().next() {
                        match catch_unwind(AssertUnwindSafe(|| interpose::enter(|| st.delete_orphan(&cassadilia::BlobHash(*h))))) {
                            Ok(Ok(true)) => {
                                want.remove(&format!("db/cas/{}", decode::cas_rel_path(h)));
                            }
                            other => return Err(fail(&["C08"], "cleanup-counters", 0, format!("{tag}: delete_orphan(reported orphan) = {:?}, expected Ok(true)", other.map(|r| r.map_err(|e| e.to_string())).map_err(|_| "panic")))),
                        }
                    }
                    if let Some(h) = w.expected_blobs().keys().next() {
                        match catch_unwind(AssertUnwindSafe(|| interpose::enter(|| st.delete_orphan(&cassadilia::BlobHash(*h))))) {
                            Ok(Ok(false)) => {}
                            other => return Err(fail(&["C08"], "cleanup-harmed-live-data", 0, format!("{tag}: delete_orphan(referenced blob) = {:?}, expected Ok(false)", other.map(|r| r.map_err(|e| e.to_string())).map_err(|_| "panic")))),
                        }
                    }
                    let after = with_sim(|s| crate::exec::disk_image(&s.disk));
                    if after != want {
                        return Err(fail(&["C08"], "cleanup-effect", 0, format!("{tag}: delete_orphan changed more or less than the one orphan:\n{}", diff_image(&after, &want))));
                    }
                    Ok(())
                }
            }
        })();
        interpose::enter(|| drop(st));
        cleanup_res?;
        // restoring the exactness of C07: after delete_orphans on an image without missing/corrupted blobs
        if which == 0 && exp.missing.is_empty() && exp.corrupted.is_empty() && planted.resized == 0 && planted.flipped == 0 && planted.deleted == 0 {
            // a subdirectory in staging/ is not a "leftover staging file": tolerate it only there
            let ok_files = with_sim(|s| s.disk.list("db/staging/").iter().all(|(p, _)| p.starts_with("db/staging/subdir/")));
            if ok_files && with_sim(|s| !s.disk.files.contains_key("db/staging/subdir/inner")) {
                w.exact_files = true;
                w.check_files(0).map_err(|mut f| {
                    f.props = vec!["C08".into(), "C07".into()];
                    f.message = format!("{tag}: after delete_orphans: {}", f.message);
                    f
                })?;
            }
        }
        Ok(())
    })();
    w.readers.clear();
    w.close();
    let mut sim = interpose::uninstall().expect("sim");
    out.counters.mutating_calls += sim.step;
    out.counters.events += sim.events;
    if let Some(e) = sim.harness_error.take() {
        out.harness_error = Some(e);
    } else if let Err(e) = sim.disk.fidelity(&base) {
        out.harness_error = Some(format!("fidelity check failed (SimDisk != tmpfs): {e}"));
    }
    remove_dir(&base);
    res?;
    if let Some(v) = sim.mon.take_own().or_else(|| sim.mon.take_foreign()) {
        return Err(Failure { props: vec![v.property], class: format!("{}:{}", v.monitor, v.class), op_index: 0, message: format!("{tag}: step {}: {}", v.step, v.message) });
    }
    Ok(())
}

fn diff_scan(got: &ScanView, exp: &ScanView) -> String {
    let mut s = String::new();
    let hs = |v: &BTreeSet<[u8; 32]>| v.iter().map(|h| hex32(h)[..12].to_string()).collect::<Vec<_>>();
    if got.orphaned != exp.orphaned {
        s += &format!("  orphaned: got {:?} expected {:?}\n", hs(&got.orphaned), hs(&exp.orphaned));
    }
    if got.invalid != exp.invalid {
        s += &format!("  invalid: got {:?} expected {:?}\n", got.invalid, exp.invalid);
    }
    if got.missing != exp.missing {
        s += &format!("  missing: got {:?} expected {:?}\n", hs(&got.missing), hs(&exp.missing));
    }
    if got.corrupted != exp.corrupted {
        s += &format!("  corrupted: got {:?} expected {:?}\n", hs(&got.corrupted), hs(&exp.corrupted));
    }
    if got.staging != exp.staging {
        s += &format!("  staging: got {:?} expected {:?}\n", got.staging, exp.staging);
    }
    if got.total_blobs != exp.total_blobs {
        s += &format!("  total_blobs: got {} expected {}\n", got.total_blobs, exp.total_blobs);
    }
    s
}

fn diff_image(got: &BTreeMap<String, (usize, [u8; 32])>, want: &BTreeMap<String, (usize, [u8; 32])>) -> String {
    let mut s = String::new();
    for (k, v) in got {
        match want.get(k) {
            None => s += &format!("  unexpected: {k}\n"),
            Some(w) if w != v => s += &format!("  content differs: {k}\n"),
            _ => {}
        }
    }
    for k in want.keys() {
        if !got.contains_key(k) {
            s += &format!("  missing: {k}\n");
        }
    }
    s
}
