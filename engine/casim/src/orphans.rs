use crate::case::{Case, Outcome};
use crate::keys::SimKey;

pub fn run_orphans<K: SimKey>(_case: &Case, _pseed: u64) -> Outcome {
    let mut out = Outcome::default();
    out.harness_error = Some("mode not implemented".into());
    out
}
