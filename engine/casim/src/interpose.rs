//! (S1) libc interposition inside the harness binary — DESIGN.md §2.1.
//!
//! The harness defines the libc entry points that std / tempfile / cassadilia use for file
//! access. They are linked statically into this executable, so the static linker binds their
//! references to the definitions below; the real functions are reached via dlsym(RTLD_NEXT).
//!
//! A call is *simulated* only when the calling thread has an installed simulation (`Sim`) and
//! the call concerns a path / fd under the simulation root. Everything else passes through.

#![allow(clippy::missing_safety_doc)]

use std::cell::{Cell, RefCell};
use std::ffi::CStr;
use std::sync::atomic::{AtomicUsize, Ordering};

use libc::{c_char, c_int, c_void, mode_t, off64_t, size_t, ssize_t};

use crate::sim::Sim;

thread_local! {
    /// true while the current thread runs simulated code and is not inside the interposer.
    static ACTIVE: Cell<bool> = const { Cell::new(false) };
    static SIM: RefCell<Option<Box<Sim>>> = const { RefCell::new(None) };
}

macro_rules! real {
    ($name:literal, fn($($a:ty),*) -> $r:ty) => {{
        static PTR: AtomicUsize = AtomicUsize::new(0);
        let mut p = PTR.load(Ordering::Relaxed);
        if p == 0 {
            p = libc::dlsym(libc::RTLD_NEXT, concat!($name, "\0").as_ptr() as *const c_char) as usize;
            if p == 0 {
                libc::abort();
            }
            PTR.store(p, Ordering::Relaxed);
        }
        std::mem::transmute::<usize, unsafe extern "C" fn($($a),*) -> $r>(p)
    }};
}

#[inline]
fn active() -> bool {
    ACTIVE.try_with(|a| a.get()).unwrap_or(false)
}

/// RAII: interposer / harness code runs with simulation switched off for nested libc calls.
pub struct Bypass(bool);
impl Bypass {
    pub fn new() -> Self {
        let prev = ACTIVE.with(|a| a.replace(false));
        Bypass(prev)
    }
}
impl Drop for Bypass {
    fn drop(&mut self) {
        ACTIVE.with(|a| a.set(self.0));
    }
}

/// Install a simulation on this thread. Simulated code must run inside `enter`.
pub fn install(sim: Sim) {
    let _b = Bypass::new();
    SIM.with(|s| *s.borrow_mut() = Some(Box::new(sim)));
}

pub fn uninstall() -> Option<Sim> {
    let _b = Bypass::new();
    ACTIVE.with(|a| a.set(false));
    SIM.with(|s| s.borrow_mut().take().map(|b| *b))
}

pub fn installed() -> bool {
    let _b = Bypass::new();
    SIM.with(|s| s.borrow().is_some())
}

/// Run `f` as simulated code (libc calls under the root are intercepted).
pub fn enter<R>(f: impl FnOnce() -> R) -> R {
    struct Reset(bool);
    impl Drop for Reset {
        fn drop(&mut self) {
            ACTIVE.with(|a| a.set(self.0));
        }
    }
    let prev = ACTIVE.with(|a| a.replace(true));
    let _r = Reset(prev);
    f()
}

/// Access the installed simulation from harness code (never from simulated code paths that
/// already hold it).
pub fn with_sim<R>(f: impl FnOnce(&mut Sim) -> R) -> R {
    let _b = Bypass::new();
    SIM.with(|s| {
        let mut g = s.borrow_mut();
        f(g.as_mut().expect("no simulation installed"))
    })
}

fn try_with_sim<R>(f: impl FnOnce(&mut Sim) -> R) -> Option<R> {
    SIM.with(|s| {
        let mut g = s.try_borrow_mut().ok()?;
        g.as_mut().map(|sim| f(sim))
    })
}

unsafe fn set_errno(e: c_int) {
    *libc::__errno_location() = e;
}
unsafe fn get_errno() -> c_int {
    *libc::__errno_location()
}

unsafe fn cpath(p: *const c_char) -> Option<String> {
    if p.is_null() {
        return None;
    }
    CStr::from_ptr(p).to_str().ok().map(|s| s.to_owned())
}

/// Outcome of the simulation's decision for a call.
pub enum Verdict {
    /// perform the real call
    Pass,
    /// fail with errno, no side effect
    Fail(c_int),
    /// (write/read) transfer at most this many bytes
    Short(usize),
}

// --------------------------------------------------------------------------------------------
// scheduling point (conc build): every intercepted call is a point where another task may run.

#[cfg(feature = "conc")]
fn sched_point() {
    crate::conc::sched_point();
}
#[cfg(not(feature = "conc"))]
#[inline]
fn sched_point() {}

// --------------------------------------------------------------------------------------------
// open family

unsafe fn do_open(path: *const c_char, flags: c_int, mode: mode_t, which: u8) -> c_int {
    let real_open = real!("open64", fn(*const c_char, c_int, mode_t) -> c_int);
    let _ = which;
    if !active() {
        return real_open(path, flags, mode);
    }
    let Some(p) = cpath(path) else { return real_open(path, flags, mode) };
    let rel = {
        let _b = Bypass::new();
        try_with_sim(|s| s.rel(&p)).flatten()
    };
    let Some(rel) = rel else {
        // a file outside the simulation root: pass through, but if the kernel hands out a
        // descriptor number that the model still associates with a file closed by a foreign
        // thread (Async fdatasync worker), forget that stale association
        let fd = real_open(path, flags, mode);
        if fd >= 0 {
            let _b = Bypass::new();
            try_with_sim(|s| s.forget_fd(fd));
        }
        return fd;
    };
    sched_point();
    let _b = Bypass::new();
    let verdict = try_with_sim(|s| s.pre_open(&rel, flags)).unwrap_or(Verdict::Pass);
    if let Verdict::Fail(e) = verdict {
        try_with_sim(|s| s.post_open(&rel, flags, -1, e));
        set_errno(e);
        return -1;
    }
    let fd = real_open(path, flags, mode);
    let e = if fd < 0 { get_errno() } else { 0 };
    try_with_sim(|s| s.post_open(&rel, flags, fd, e));
    if fd < 0 {
        set_errno(e);
    }
    fd
}

#[no_mangle]
pub unsafe extern "C-unwind" fn open64(path: *const c_char, flags: c_int, mode: mode_t) -> c_int {
    do_open(path, flags, mode, 0)
}
#[no_mangle]
pub unsafe extern "C-unwind" fn open(path: *const c_char, flags: c_int, mode: mode_t) -> c_int {
    do_open(path, flags, mode, 1)
}

unsafe fn do_openat(dirfd: c_int, path: *const c_char, flags: c_int, mode: mode_t) -> c_int {
    let real_openat = real!("openat64", fn(c_int, *const c_char, c_int, mode_t) -> c_int);
    if !active() {
        return real_openat(dirfd, path, flags, mode);
    }
    if dirfd == libc::AT_FDCWD {
        return do_open(path, flags, mode, 2);
    }
    // dirfd-relative open: only the harness's own clean-up uses it (in bypass mode). If the
    // simulated code ever does, the absolute path check cannot see it -> unmodelled.
    if let Some(p) = cpath(path) {
        let _b = Bypass::new();
        try_with_sim(|s| s.unmodelled_if_tracked_dirfd("openat", dirfd, &p));
    }
    real_openat(dirfd, path, flags, mode)
}
#[no_mangle]
pub unsafe extern "C-unwind" fn openat64(d: c_int, p: *const c_char, f: c_int, m: mode_t) -> c_int {
    do_openat(d, p, f, m)
}
#[no_mangle]
pub unsafe extern "C-unwind" fn openat(d: c_int, p: *const c_char, f: c_int, m: mode_t) -> c_int {
    do_openat(d, p, f, m)
}

#[no_mangle]
pub unsafe extern "C-unwind" fn creat64(path: *const c_char, mode: mode_t) -> c_int {
    do_open(path, libc::O_CREAT | libc::O_WRONLY | libc::O_TRUNC, mode, 3)
}

// --------------------------------------------------------------------------------------------
// close

#[no_mangle]
pub unsafe extern "C-unwind" fn close(fd: c_int) -> c_int {
    let real_close = real!("close", fn(c_int) -> c_int);
    if !active() {
        return real_close(fd);
    }
    let tracked = {
        let _b = Bypass::new();
        try_with_sim(|s| s.fd_tracked(fd)).unwrap_or(false)
    };
    if !tracked {
        return real_close(fd);
    }
    sched_point();
    let _b = Bypass::new();
    let r = real_close(fd);
    let e = get_errno();
    try_with_sim(|s| s.post_close(fd));
    set_errno(e);
    r
}

// --------------------------------------------------------------------------------------------
// write / read

#[no_mangle]
pub unsafe extern "C-unwind" fn write(fd: c_int, buf: *const c_void, n: size_t) -> ssize_t {
    let real_write = real!("write", fn(c_int, *const c_void, size_t) -> ssize_t);
    if !active() {
        return real_write(fd, buf, n);
    }
    let tracked = {
        let _b = Bypass::new();
        try_with_sim(|s| s.fd_tracked(fd)).unwrap_or(false)
    };
    if !tracked {
        return real_write(fd, buf, n);
    }
    sched_point();
    let _b = Bypass::new();
    let verdict = try_with_sim(|s| s.pre_write(fd, n)).unwrap_or(Verdict::Pass);
    let want = match verdict {
        Verdict::Fail(e) => {
            try_with_sim(|s| s.post_write(fd, &[], -1, 0, e));
            set_errno(e);
            return -1;
        }
        Verdict::Short(k) => k.min(n),
        Verdict::Pass => n,
    };
    let r = real_write(fd, buf, want);
    let e = if r < 0 { get_errno() } else { 0 };
    let real_lseek = real!("lseek64", fn(c_int, off64_t, c_int) -> off64_t);
    let end = real_lseek(fd, 0, libc::SEEK_CUR);
    let data: &[u8] = if r > 0 { std::slice::from_raw_parts(buf as *const u8, r as usize) } else { &[] };
    try_with_sim(|s| s.post_write(fd, data, r as i64, end as i64, e));
    if r < 0 {
        set_errno(e);
    }
    r
}

#[no_mangle]
pub unsafe extern "C-unwind" fn read(fd: c_int, buf: *mut c_void, n: size_t) -> ssize_t {
    let real_read = real!("read", fn(c_int, *mut c_void, size_t) -> ssize_t);
    if !active() {
        return real_read(fd, buf, n);
    }
    let tracked = {
        let _b = Bypass::new();
        try_with_sim(|s| s.fd_tracked(fd)).unwrap_or(false)
    };
    if !tracked {
        return real_read(fd, buf, n);
    }
    sched_point();
    let _b = Bypass::new();
    let verdict = try_with_sim(|s| s.pre_read(fd, n, true)).unwrap_or(Verdict::Pass);
    let want = match verdict {
        Verdict::Fail(e) => {
            set_errno(e);
            return -1;
        }
        Verdict::Short(k) => k.min(n),
        Verdict::Pass => n,
    };
    let r = real_read(fd, buf, want);
    let e = get_errno();
    try_with_sim(|s| s.post_read(fd, r as i64));
    set_errno(e);
    r
}

#[no_mangle]
pub unsafe extern "C-unwind" fn pread64(fd: c_int, buf: *mut c_void, n: size_t, off: off64_t) -> ssize_t {
    let real_pread = real!("pread64", fn(c_int, *mut c_void, size_t, off64_t) -> ssize_t);
    if !active() {
        return real_pread(fd, buf, n, off);
    }
    let tracked = {
        let _b = Bypass::new();
        try_with_sim(|s| s.fd_tracked(fd)).unwrap_or(false)
    };
    if !tracked {
        return real_pread(fd, buf, n, off);
    }
    sched_point();
    let _b = Bypass::new();
    let verdict = try_with_sim(|s| s.pre_read(fd, n, false)).unwrap_or(Verdict::Pass);
    let want = match verdict {
        Verdict::Fail(e) => {
            set_errno(e);
            return -1;
        }
        Verdict::Short(k) => k.min(n),
        Verdict::Pass => n,
    };
    let r = real_pread(fd, buf, want, off);
    let e = get_errno();
    try_with_sim(|s| s.post_read(fd, r as i64));
    set_errno(e);
    r
}

// --------------------------------------------------------------------------------------------
// sync family

unsafe fn do_sync(fd: c_int, data_only: bool) -> c_int {
    let real_fsync = real!("fsync", fn(c_int) -> c_int);
    let real_fdatasync = real!("fdatasync", fn(c_int) -> c_int);
    let call = |fd| if data_only { real_fdatasync(fd) } else { real_fsync(fd) };
    if !active() {
        return call(fd);
    }
    let tracked = {
        let _b = Bypass::new();
        try_with_sim(|s| s.fd_tracked(fd)).unwrap_or(false)
    };
    if !tracked {
        return call(fd);
    }
    sched_point();
    let _b = Bypass::new();
    if let Verdict::Fail(e) = try_with_sim(|s| s.pre_sync(fd)).unwrap_or(Verdict::Pass) {
        try_with_sim(|s| s.post_sync(fd, false));
        set_errno(e);
        return -1;
    }
    // tmpfs: fsync is a no-op in the kernel; SimDisk keeps the durable view.
    let r = call(fd);
    let e = get_errno();
    try_with_sim(|s| s.post_sync(fd, r == 0));
    set_errno(e);
    r
}
#[no_mangle]
pub unsafe extern "C-unwind" fn fsync(fd: c_int) -> c_int {
    do_sync(fd, false)
}
#[no_mangle]
pub unsafe extern "C-unwind" fn fdatasync(fd: c_int) -> c_int {
    do_sync(fd, true)
}

// --------------------------------------------------------------------------------------------
// directory operations

#[no_mangle]
pub unsafe extern "C-unwind" fn rename(from: *const c_char, to: *const c_char) -> c_int {
    let real_rename = real!("rename", fn(*const c_char, *const c_char) -> c_int);
    if !active() {
        return real_rename(from, to);
    }
    let (Some(f), Some(t)) = (cpath(from), cpath(to)) else { return real_rename(from, to) };
    let rels = {
        let _b = Bypass::new();
        try_with_sim(|s| (s.rel(&f), s.rel(&t)))
    };
    let Some((rf, rt)) = rels else { return real_rename(from, to) };
    if rf.is_none() && rt.is_none() {
        return real_rename(from, to);
    }
    sched_point();
    let _b = Bypass::new();
    let (Some(rf), Some(rt)) = (rf, rt) else {
        try_with_sim(|s| s.unmodelled(&format!("rename across the simulation root: {f} -> {t}")));
        return real_rename(from, to);
    };
    if let Verdict::Fail(e) = try_with_sim(|s| s.pre_rename(&rf, &rt)).unwrap_or(Verdict::Pass) {
        try_with_sim(|s| s.post_rename(&rf, &rt, e));
        set_errno(e);
        return -1;
    }
    let r = real_rename(from, to);
    let e = if r != 0 { get_errno() } else { 0 };
    try_with_sim(|s| s.post_rename(&rf, &rt, e));
    if r != 0 {
        set_errno(e);
    }
    r
}

#[no_mangle]
pub unsafe extern "C-unwind" fn unlink(path: *const c_char) -> c_int {
    let real_unlink = real!("unlink", fn(*const c_char) -> c_int);
    if !active() {
        return real_unlink(path);
    }
    let Some(p) = cpath(path) else { return real_unlink(path) };
    let rel = {
        let _b = Bypass::new();
        try_with_sim(|s| s.rel(&p)).flatten()
    };
    let Some(rel) = rel else { return real_unlink(path) };
    sched_point();
    let _b = Bypass::new();
    if let Verdict::Fail(e) = try_with_sim(|s| s.pre_unlink(&rel)).unwrap_or(Verdict::Pass) {
        try_with_sim(|s| s.post_unlink(&rel, e));
        set_errno(e);
        return -1;
    }
    let r = real_unlink(path);
    let e = if r != 0 { get_errno() } else { 0 };
    try_with_sim(|s| s.post_unlink(&rel, e));
    if r != 0 {
        set_errno(e);
    }
    r
}

#[no_mangle]
pub unsafe extern "C-unwind" fn mkdir(path: *const c_char, mode: mode_t) -> c_int {
    let real_mkdir = real!("mkdir", fn(*const c_char, mode_t) -> c_int);
    if !active() {
        return real_mkdir(path, mode);
    }
    let Some(p) = cpath(path) else { return real_mkdir(path, mode) };
    let rel = {
        let _b = Bypass::new();
        try_with_sim(|s| s.rel(&p)).flatten()
    };
    let Some(rel) = rel else { return real_mkdir(path, mode) };
    sched_point();
    let _b = Bypass::new();
    if let Verdict::Fail(e) = try_with_sim(|s| s.pre_mkdir(&rel)).unwrap_or(Verdict::Pass) {
        try_with_sim(|s| s.post_mkdir(&rel, e));
        set_errno(e);
        return -1;
    }
    let r = real_mkdir(path, mode);
    let e = if r != 0 { get_errno() } else { 0 };
    try_with_sim(|s| s.post_mkdir(&rel, e));
    if r != 0 {
        set_errno(e);
    }
    r
}

#[no_mangle]
pub unsafe extern "C-unwind" fn rmdir(path: *const c_char) -> c_int {
    let real_rmdir = real!("rmdir", fn(*const c_char) -> c_int);
    if !active() {
        return real_rmdir(path);
    }
    let Some(p) = cpath(path) else { return real_rmdir(path) };
    let rel = {
        let _b = Bypass::new();
        try_with_sim(|s| s.rel(&p)).flatten()
    };
    let Some(rel) = rel else { return real_rmdir(path) };
    sched_point();
    let _b = Bypass::new();
    if let Verdict::Fail(e) = try_with_sim(|s| s.pre_rmdir(&rel)).unwrap_or(Verdict::Pass) {
        try_with_sim(|s| s.post_rmdir(&rel, e));
        set_errno(e);
        return -1;
    }
    let r = real_rmdir(path);
    let e = if r != 0 { get_errno() } else { 0 };
    try_with_sim(|s| s.post_rmdir(&rel, e));
    if r != 0 {
        set_errno(e);
    }
    r
}

#[no_mangle]
pub unsafe extern "C-unwind" fn flock(fd: c_int, op: c_int) -> c_int {
    let real_flock = real!("flock", fn(c_int, c_int) -> c_int);
    if !active() {
        return real_flock(fd, op);
    }
    let tracked = {
        let _b = Bypass::new();
        try_with_sim(|s| s.fd_tracked(fd)).unwrap_or(false)
    };
    if !tracked {
        return real_flock(fd, op);
    }
    sched_point();
    let _b = Bypass::new();
    let r = real_flock(fd, op);
    let e = get_errno();
    try_with_sim(|s| s.post_flock(fd, op, r == 0));
    set_errno(e);
    r
}

#[no_mangle]
pub unsafe extern "C-unwind" fn ftruncate64(fd: c_int, len: off64_t) -> c_int {
    let real_ftruncate = real!("ftruncate64", fn(c_int, off64_t) -> c_int);
    if !active() {
        return real_ftruncate(fd, len);
    }
    let tracked = {
        let _b = Bypass::new();
        try_with_sim(|s| s.fd_tracked(fd)).unwrap_or(false)
    };
    if !tracked {
        return real_ftruncate(fd, len);
    }
    sched_point();
    let _b = Bypass::new();
    if let Verdict::Fail(e) = try_with_sim(|s| s.pre_truncate(fd)).unwrap_or(Verdict::Pass) {
        try_with_sim(|s| s.post_truncate(fd, len as u64, e));
        set_errno(e);
        return -1;
    }
    let r = real_ftruncate(fd, len);
    let e = if r != 0 { get_errno() } else { 0 };
    try_with_sim(|s| s.post_truncate(fd, len as u64, e));
    if r != 0 {
        set_errno(e);
    }
    r
}
#[no_mangle]
pub unsafe extern "C-unwind" fn ftruncate(fd: c_int, len: libc::off_t) -> c_int {
    ftruncate64(fd, len)
}

// --------------------------------------------------------------------------------------------
// calls SimDisk has no model for: end the run as a harness error when they touch the root.

macro_rules! unmodelled_fd {
    ($name:ident, $sym:literal, ($($arg:ident : $ty:ty),*), $ret:ty, $fd:ident) => {
        #[no_mangle]
        pub unsafe extern "C-unwind" fn $name($($arg: $ty),*) -> $ret {
            let realf = real!($sym, fn($($ty),*) -> $ret);
            if active() {
                let _b = Bypass::new();
                try_with_sim(|s| if s.fd_tracked($fd) { s.unmodelled($sym) });
            }
            realf($($arg),*)
        }
    };
}
macro_rules! unmodelled_path {
    ($name:ident, $sym:literal, ($($arg:ident : $ty:ty),*), $ret:ty, [$($p:ident),*]) => {
        #[no_mangle]
        pub unsafe extern "C-unwind" fn $name($($arg: $ty),*) -> $ret {
            let realf = real!($sym, fn($($ty),*) -> $ret);
            if active() {
                let _b = Bypass::new();
                $( if let Some(p) = cpath($p) {
                    try_with_sim(|s| if s.rel(&p).is_some() { s.unmodelled(concat!($sym, " on a path under the root")) });
                } )*
            }
            realf($($arg),*)
        }
    };
}

unmodelled_fd!(pwrite64, "pwrite64", (fd: c_int, b: *const c_void, n: size_t, o: off64_t), ssize_t, fd);
unmodelled_fd!(writev, "writev", (fd: c_int, iov: *const libc::iovec, n: c_int), ssize_t, fd);
unmodelled_fd!(pwritev64, "pwritev64", (fd: c_int, iov: *const libc::iovec, n: c_int, o: off64_t), ssize_t, fd);
unmodelled_fd!(fallocate64, "fallocate64", (fd: c_int, m: c_int, o: off64_t, l: off64_t), c_int, fd);
unmodelled_fd!(posix_fallocate64, "posix_fallocate64", (fd: c_int, o: off64_t, l: off64_t), c_int, fd);
/// in-kernel copies (std::fs::copy): modelled as a write of the bytes that arrived in the output
/// file. Only the NULL-offset form std uses is modelled; explicit offsets end the run as unmodelled.
unsafe fn model_kernel_copy(what: &str, fd_in: c_int, fd_out: c_int, explicit_offsets: bool, do_call: impl FnOnce() -> ssize_t) -> ssize_t {
    let tracked = active() && {
        let _b = Bypass::new();
        try_with_sim(|s| s.fd_tracked(fd_out)).unwrap_or(false)
    };
    if !tracked {
        return do_call();
    }
    sched_point();
    let _b = Bypass::new();
    if explicit_offsets {
        try_with_sim(|s| s.unmodelled(&format!("{what} with explicit offsets")));
        return do_call();
    }
    let verdict = try_with_sim(|s| s.pre_write(fd_out, 0)).unwrap_or(Verdict::Pass);
    if let Verdict::Fail(e) = verdict {
        try_with_sim(|s| s.post_write(fd_out, &[], -1, 0, e));
        set_errno(e);
        return -1;
    }
    let r = do_call();
    let e = if r < 0 { get_errno() } else { 0 };
    let real_lseek = real!("lseek64", fn(c_int, off64_t, c_int) -> off64_t);
    let real_pread = real!("pread64", fn(c_int, *mut c_void, size_t, off64_t) -> ssize_t);
    let mut data: Vec<u8> = Vec::new();
    if r > 0 {
        let in_end = real_lseek(fd_in, 0, libc::SEEK_CUR);
        data.resize(r as usize, 0);
        let got = real_pread(fd_in, data.as_mut_ptr() as *mut c_void, r as usize, in_end - r as off64_t);
        if got != r {
            try_with_sim(|s| s.unmodelled(&format!("{what}: could not read back the copied bytes")));
        }
    }
    let out_end = real_lseek(fd_out, 0, libc::SEEK_CUR);
    try_with_sim(|s| s.post_write(fd_out, &data, r as i64, out_end as i64, e));
    if r < 0 {
        set_errno(e);
    }
    r
}

#[no_mangle]
pub unsafe extern "C-unwind" fn sendfile64(fd_out: c_int, fd_in: c_int, off: *mut off64_t, n: size_t) -> ssize_t {
    let realf = real!("sendfile64", fn(c_int, c_int, *mut off64_t, size_t) -> ssize_t);
    model_kernel_copy("sendfile64", fd_in, fd_out, !off.is_null(), || realf(fd_out, fd_in, off, n))
}

#[no_mangle]
pub unsafe extern "C-unwind" fn copy_file_range(fd_in: c_int, off_in: *mut off64_t, fd_out: c_int, off_out: *mut off64_t, n: size_t, flags: libc::c_uint) -> ssize_t {
    let realf = real!("copy_file_range", fn(c_int, *mut off64_t, c_int, *mut off64_t, size_t, libc::c_uint) -> ssize_t);
    model_kernel_copy("copy_file_range", fd_in, fd_out, !off_in.is_null() || !off_out.is_null(), || realf(fd_in, off_in, fd_out, off_out, n, flags))
}
unmodelled_path!(truncate64, "truncate64", (p: *const c_char, l: off64_t), c_int, [p]);
unmodelled_path!(link, "link", (a: *const c_char, b: *const c_char), c_int, [a, b]);
unmodelled_path!(symlink, "symlink", (a: *const c_char, b: *const c_char), c_int, [b]);
unmodelled_path!(renameat, "renameat", (a: c_int, p: *const c_char, b: c_int, q: *const c_char), c_int, [p, q]);
unmodelled_path!(renameat2, "renameat2", (a: c_int, p: *const c_char, b: c_int, q: *const c_char, f: libc::c_uint), c_int, [p, q]);
unmodelled_path!(unlinkat, "unlinkat", (d: c_int, p: *const c_char, f: c_int), c_int, [p]);
unmodelled_path!(mkdirat, "mkdirat", (d: c_int, p: *const c_char, m: mode_t), c_int, [p]);
unmodelled_path!(linkat, "linkat", (a: c_int, p: *const c_char, b: c_int, q: *const c_char, f: c_int), c_int, [p, q]);

// --------------------------------------------------------------------------------------------
// raw access for the harness itself (image materialisation, fidelity walk): plain std::fs under
// a Bypass guard is enough, these helpers exist for readability.

pub fn bypass<R>(f: impl FnOnce() -> R) -> R {
    let _b = Bypass::new();
    f()
}

/// per-task ACTIVE flag support for the concurrent build: coroutines share the OS thread, so the
/// scheduler saves / restores the flag at every context switch.
pub fn get_active() -> bool {
    active()
}
pub fn set_active(v: bool) {
    ACTIVE.with(|a| a.set(v));
}
