//! C10: F-cut / F-flip on the un-checkpointed part of the write-ahead log.

use std::collections::BTreeSet;
use std::panic::{catch_unwind, AssertUnwindSafe};

use crate::case::{Case, Outcome};
use crate::decode::{self, Logged};
use crate::exec::{fail, panic_msg, World};
use crate::interpose;
use crate::keys::SimKey;
use crate::modes::traced_run;
use crate::monitors::parse_log;
use crate::rng::Rng;
use crate::seqrun::{finish_sim, fresh_dir, remove_dir};
use crate::sim::{Disk, Sim};

struct Rec {
    seg_path: String,
    seg_id: u64,
    start: usize,
    end: usize,
}

pub fn run_log_damage<K: SimKey>(case: &Case, budget: u32, dseed: u64) -> Outcome {
    let mut out = Outcome::default();
    let mut t = traced_run::<K>(case, &mut out, true);
    if let Some(f) = t.failure.take() {
        out.violation = Some(f);
    }
    let mut sim = std::mem::replace(&mut t.sim, Sim::new(std::path::Path::new("/nonexistent"), 0));
    finish_sim(&mut out, &mut sim, &t.base, true);
    remove_dir(&t.base);
    if out.violation.is_some() || out.harness_error.is_some() {
        return out;
    }
    // base images: the clean final one, plus crash images - in particular those whose
    // un-checkpointed tail spans more than one segment (a kill between a roll-over append and its
    // checkpoint), which no clean shutdown ever produces
    let tail_segments = |d: &Disk| -> usize {
        let Ok(p) = parse_log(d) else { return 0 };
        let sv = p.snapshot.as_ref().map_or(0, |s| s.version);
        p.segments.values().filter(|s| s.records.iter().any(|r| r.version > sv)).count()
    };
    let mut rng0 = Rng::new(dseed ^ 0x5eed);
    let mut bases: Vec<(String, Disk)> = vec![("final image".into(), sim.disk.clone())];
    let multi: Vec<usize> = (0..t.snaps.len()).filter(|&i| tail_segments(&t.snaps[i].disk) >= 2).collect();
    if !multi.is_empty() {
        let i = *rng0.pick(&multi);
        bases.push((format!("crash image cut={} (tail spans {} segments)", t.snaps[i].step, tail_segments(&t.snaps[i].disk)), t.snaps[i].disk.clone()));
        *out.site_counts.entry("probe:multi-segment-tail".into()).or_insert(0) += 1;
    }
    if !t.snaps.is_empty() && rng0.chance(1, 2) {
        let i = rng0.below(t.snaps.len() as u64) as usize;
        bases.push((format!("crash image cut={}", t.snaps[i].step), t.snaps[i].disk.clone()));
    }
    let per = (budget / bases.len() as u32).max(50);
    for (bi, (what, disk)) in bases.into_iter().enumerate() {
        damage_image::<K>(case, &disk, &what, per, dseed.wrapping_add(bi as u64), &mut out);
        if out.violation.is_some() || out.harness_error.is_some() {
            break;
        }
    }
    out
}

fn damage_image<K: SimKey>(case: &Case, disk: &Disk, what: &str, budget: u32, dseed: u64, out: &mut Outcome) {
    let disk = disk.clone();
    let wl = &case.workload;
    let Ok(parsed) = parse_log(&disk) else { return };
    let sv = parsed.snapshot.as_ref().map_or(0, |s| s.version);
    // states after each prefix of the un-checkpointed records
    let mut state: Logged = Logged::new();
    if let Some(s) = &parsed.snapshot {
        for (k, h, sz) in &s.entries {
            state.insert(k.clone(), (*h, *sz));
        }
    }
    let mut states = vec![state.clone()];
    let mut recs: Vec<Rec> = Vec::new();
    for (&id, seg) in &parsed.segments {
        for r in &seg.records {
            if r.version > sv {
                if let Ok(op) = &r.op {
                    decode::apply(&mut state, op);
                }
                states.push(state.clone());
                recs.push(Rec { seg_path: format!("db/{id}_index.wal"), seg_id: id, start: r.start, end: r.end });
            }
        }
    }
    if recs.is_empty() {
        return;
    }
    let total_len: usize = recs.iter().map(|r| r.end - r.start).sum();
    let mut rng = Rng::new(dseed);
    // --- enumerate damages -------------------------------------------------------------------
    // (kind, record index, offset inside the segment file, new byte)
    enum Dmg {
        Cut { rec: usize, off: usize },
        Flip { rec: usize, off: usize, val: u8 },
    }
    let mut dmgs: Vec<Dmg> = Vec::new();
    let exhaustive_cut = total_len <= 2048;
    for (ri, r) in recs.iter().enumerate() {
        let len = r.end - r.start;
        if exhaustive_cut {
            for o in 0..len {
                dmgs.push(Dmg::Cut { rec: ri, off: r.start + o });
            }
        } else {
            for o in [0usize, 1, 7, 8, 39, 40, 43, 44, 45, len / 2, len - 1] {
                if o < len {
                    dmgs.push(Dmg::Cut { rec: ri, off: r.start + o });
                }
            }
        }
    }
    let exhaustive_flip = total_len <= 1024;
    for (ri, r) in recs.iter().enumerate() {
        let len = r.end - r.start;
        let region: Vec<usize> = (8..40).chain(44..len).collect();
        let picks: Vec<usize> = if exhaustive_flip {
            region
        } else {
            let mut v: Vec<usize> = vec![8, 39, 44, len - 1];
            for _ in 0..12 {
                v.push(*rng.pick(&region));
            }
            v
        };
        let orig_seg = disk.bytes(&r.seg_path).unwrap();
        for o in picks {
            let b = orig_seg[r.start + o];
            let mut vals = vec![b ^ 0x01, b ^ 0x80, !b];
            let rv = rng.below(256) as u8;
            if rv != b && !vals.contains(&rv) {
                vals.push(rv);
            }
            for v in vals {
                dmgs.push(Dmg::Flip { rec: ri, off: r.start + o, val: v });
            }
        }
    }
    let all = dmgs.len();
    // sample down to the budget, deterministically
    if dmgs.len() > budget as usize {
        let mut keep: BTreeSet<usize> = BTreeSet::new();
        while keep.len() < budget as usize {
            keep.insert(rng.below(all as u64) as usize);
        }
        let mut i = 0;
        dmgs.retain(|_| {
            i += 1;
            keep.contains(&(i - 1))
        });
        out.counters.sampled_cases += 1;
    } else {
        out.counters.exhaustive_cases += 1;
    }
    // --- judge each damaged image ------------------------------------------------------------
    for d in dmgs {
        let mut img = disk.clone();
        let (ri, desc) = match &d {
            Dmg::Cut { rec, off } => {
                let r = &recs[*rec];
                let i = img.files[&r.seg_path];
                let mut b = (*img.inodes[i].cache).clone();
                b.truncate(*off);
                img.inodes[i].cache = std::sync::Arc::new(b);
                // later segments are removed
                let later: Vec<String> = recs.iter().filter(|x| x.seg_id > r.seg_id).map(|x| x.seg_path.clone()).collect();
                for p in later {
                    img.files.remove(&p);
                }
                // also drop any (empty) segment file beyond the cut segment
                let extra: Vec<String> = img.files.keys().filter(|p| p.starts_with("db/") && p.ends_with("_index.wal") && decode::segment_id_of(&p[3..]).is_some_and(|id| id > r.seg_id)).cloned().collect();
                for p in extra {
                    img.files.remove(&p);
                }
                (*rec, format!("log cut at byte {} of segment {} (inside record #{rec}, {} bytes in)", off, r.seg_id, off - r.start))
            }
            Dmg::Flip { rec, off, val } => {
                let r = &recs[*rec];
                let i = img.files[&r.seg_path];
                let mut b = (*img.inodes[i].cache).clone();
                let old = b[*off];
                b[*off] = *val;
                img.inodes[i].cache = std::sync::Arc::new(b);
                (*rec, format!("byte {} of record #{rec} (segment {}, {} region) changed {old:#04x}->{val:#04x}", off - r.start, r.seg_id, if off - r.start < 44 { "checksum" } else { "payload" }))
            }
        };
        let desc = format!("{what}: {desc}");
        out.counters.damaged_opens += 1;
        let base = fresh_dir();
        img.materialise(&base, &BTreeSet::new()).expect("materialise");
        let mut s2 = Sim::new(&base, 3);
        s2.disk = Disk::from_dir(&base).expect("image");
        s2.mon.cas_immutable = true;
        interpose::install(s2);
        let mut w = World::<K>::new(&base, wl);
        w.cfg.scan = false;
        w.cfg.fail_on_integrity = false;
        let cfg = w.cfg.clone();
        let r = catch_unwind(AssertUnwindSafe(|| w.open_raw(&cfg)));
        let verdict = match r {
            Err(p) => Some(fail(&["C10"], "panic", wl.ops.len().saturating_sub(1), format!("{desc}: open panicked: {}", panic_msg(p)))),
            Ok(Err(_)) => {
                out.counters.damaged_rejected += 1;
                None
            }
            Ok(Ok(())) => {
                let items = w.observe_items().unwrap_or_default();
                let got: Logged = items.into_iter().map(|(k, h, s)| (k, (h, s))).collect();
                // records wholly before the damage: for a cut at a record's first byte that record is gone entirely
                let want = &states[ri];
                if got == *want {
                    out.counters.damaged_prefix_ok += 1;
                    None
                } else {
                    let which = states.iter().position(|s| *s == got);
                    Some(fail(&["C10"], "damaged-log-accepted", wl.ops.len().saturating_sub(1), format!("{desc}: open succeeded with {} keys, which is not the state after the {ri} undamaged record(s) before the damage (matches prefix {which:?})", got.len())))
                }
            }
        };
        w.close();
        let _ = interpose::uninstall();
        remove_dir(&base);
        if let Some(f) = verdict {
            out.violation = Some(f);
            break;
        }
        out.fingerprints.push(crate::rng::mix_str(ri as u64, &desc));
    }
}
