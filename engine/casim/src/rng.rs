//! SplitMix64: the single PRNG behind every choice of a run (DESIGN.md §2.7).

#[derive(Clone, Debug)]
pub struct Rng(pub u64);

pub fn mix(a: u64, b: u64) -> u64 {
    let mut r = Rng(a ^ b.wrapping_mul(0x9E37_79B9_7F4A_7C15).rotate_left(17));
    r.next();
    r.next()
}

pub fn mix_str(a: u64, s: &str) -> u64 {
    let mut h = a;
    for b in s.bytes() {
        h = mix(h, b as u64);
    }
    h
}

impl Rng {
    pub fn new(seed: u64) -> Self {
        Rng(seed)
    }
    pub fn next(&mut self) -> u64 {
        self.0 = self.0.wrapping_add(0x9E37_79B9_7F4A_7C15);
        let mut z = self.0;
        z = (z ^ (z >> 30)).wrapping_mul(0xBF58_476D_1CE4_E5B9);
        z = (z ^ (z >> 27)).wrapping_mul(0x94D0_49BB_1331_11EB);
        z ^ (z >> 31)
    }
    /// uniform in 0..n (n > 0)
    pub fn below(&mut self, n: u64) -> u64 {
        debug_assert!(n > 0);
        self.next() % n
    }
    pub fn range(&mut self, lo: u64, hi_incl: u64) -> u64 {
        lo + self.below(hi_incl - lo + 1)
    }
    pub fn chance(&mut self, num: u64, den: u64) -> bool {
        self.below(den) < num
    }
    pub fn pick<'a, T>(&mut self, xs: &'a [T]) -> &'a T {
        &xs[self.below(xs.len() as u64) as usize]
    }
    pub fn bytes(&mut self, n: usize) -> Vec<u8> {
        let mut v = Vec::with_capacity(n);
        while v.len() < n {
            let x = self.next().to_le_bytes();
            let take = (n - v.len()).min(8);
            v.extend_from_slice(&x[..take]);
        }
        v
    }
    pub fn fork(&mut self, tag: u64) -> Rng {
        Rng(mix(self.next(), tag))
    }
}
