//! Delta-debugging minimiser over explicit cases (DESIGN.md §2.8). Every candidate is an actual
//! re-execution; a candidate is kept only if the same (property, class) persists.

use std::time::Instant;

use crate::case::{Case, Mode, CutSel, SiteSel};
use crate::driver::{matches_known, run_any, KnownFinding};
use crate::exec::Failure;
use crate::gen::Op;

fn same(prop: &str, class: &str, known: &[KnownFinding], case: &Case) -> Option<Failure> {
    let out = run_any(case);
    if out.harness_error.is_some() {
        return None;
    }
    match out.violation {
        Some(f) if f.class == class && f.props.iter().any(|p| p == prop) && matches_known(known, prop, &f).is_none() => Some(f),
        _ => None,
    }
}

pub fn minimise(prop: &str, case: &Case, failure: &Failure, budget_s: u64, known: &[KnownFinding]) -> (Case, Failure, bool) {
    #[cfg(feature = "conc")]
    {
        if crate::conc::is_conc_case(case) {
            return crate::conc::minimise(prop, case, failure, budget_s, known);
        }
    }
    let start = Instant::now();
    let class = failure.class.clone();
    let mut best = case.clone();
    let mut best_f = failure.clone();
    let mut changed = false;
    let over = |s: &Instant| s.elapsed().as_secs() >= budget_s;

    // 0. pin the fault site / cut to the failing one when the message names it
    // 1. truncate the tail after the failing operation
    if best_f.op_index + 1 < best.workload.ops.len() {
        let mut c = best.clone();
        c.workload.ops.truncate(best_f.op_index + 1);
        if let Some(f) = same(prop, &class, known, &c) {
            best = c;
            best_f = f;
            changed = true;
        }
    }
    // 2. ddmin: drop chunks of operations
    let mut chunk = (best.workload.ops.len() / 2).max(1);
    while chunk >= 1 && !over(&start) {
        let mut i = 0;
        let mut any = false;
        while i < best.workload.ops.len() && !over(&start) {
            let mut c = best.clone();
            let end = (i + chunk).min(c.workload.ops.len());
            c.workload.ops.drain(i..end);
            if c.workload.ops.is_empty() {
                i += chunk;
                continue;
            }
            if let Some(f) = same(prop, &class, known, &c) {
                best = c;
                best_f = f;
                changed = true;
                any = true;
            } else {
                i += chunk;
            }
        }
        if chunk == 1 && !any {
            break;
        }
        chunk = if any { chunk } else { chunk / 2 };
        if chunk == 0 {
            break;
        }
    }
    // 3. simplify operations
    let mut i = 0;
    while i < best.workload.ops.len() && !over(&start) {
        let op = best.workload.ops[i].clone();
        let mut cands: Vec<Op> = Vec::new();
        match &op {
            Op::Put { k, c, chunks, abort } if chunks.len() > 1 => {
                cands.push(Op::Put { k: *k, c: *c, chunks: vec![chunks.iter().sum()], abort: *abort });
            }
            Op::RemoveRange { lo, .. } => {
                if let crate::gen::B::I(k) | crate::gen::B::E(k) = lo {
                    cands.push(Op::Remove { k: *k });
                }
            }
            Op::GetRange { k, .. } => cands.push(Op::Get { k: *k }),
            _ => {}
        }
        for cand in cands {
            let mut c = best.clone();
            c.workload.ops[i] = cand;
            if let Some(f) = same(prop, &class, known, &c) {
                best = c;
                best_f = f;
                changed = true;
                break;
            }
        }
        i += 1;
    }
    // 4. simpler configuration
    if !over(&start) {
        let mut c = best.clone();
        if c.workload.cfg.async_mode {
            c.workload.cfg.async_mode = false;
            if let Some(f) = same(prop, &class, known, &c) {
                best = c;
                best_f = f;
                changed = true;
            }
        }
    }
    if !over(&start) && best.noise.is_some() {
        let mut c = best.clone();
        c.noise = None;
        if let Some(f) = same(prop, &class, known, &c) {
            best = c;
            best_f = f;
            changed = true;
        }
    }
    // 5. pin enumerations (cuts / sites) to the single failing one, if the failure names it
    if let Some(pin) = pinned_mode(&best.mode, &best_f) {
        let mut c = best.clone();
        c.mode = pin;
        if let Some(f) = same(prop, &class, known, &c) {
            best = c;
            best_f = f;
            changed = true;
        }
    }
    (best, best_f, changed)
}

/// failures of enumerating modes carry "cut=<k>" / "site=<k>" in their message
fn pinned_mode(mode: &Mode, f: &Failure) -> Option<Mode> {
    let grab = |tag: &str| -> Option<u64> {
        let i = f.message.find(tag)?;
        let rest = &f.message[i + tag.len()..];
        let digits: String = rest.chars().take_while(|c| c.is_ascii_digit()).collect();
        digits.parse().ok()
    };
    match mode {
        Mode::Crash { cuts: CutSel::All { .. }, depth, suffix_every, verify } => {
            grab("cut=").map(|k| Mode::Crash { cuts: CutSel::Steps(vec![k]), depth: *depth, suffix_every: *suffix_every, verify: *verify })
        }
        Mode::Power { cuts: CutSel::All { .. } } => grab("cut=").map(|k| Mode::Power { cuts: CutSel::Steps(vec![k]) }),
        Mode::Err { site: SiteSel::All { .. }, errno, suffix_seed, second_gap } => {
            grab("site=").map(|k| Mode::Err { site: SiteSel::Sites(vec![k]), errno: *errno, suffix_seed: *suffix_seed, second_gap: *second_gap })
        }
        _ => None,
    }
}
