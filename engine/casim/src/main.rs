//! casim — deterministic simulation with fault injection for cassadilia (see /verif/DESIGN.md).

#![allow(dead_code)]
mod alloc;
mod case;

#[global_allocator]
static GLOBAL: alloc::Counting = alloc::Counting;
mod damage;
mod errmode;
mod forge;
mod orphans;
#[cfg(feature = "conc")]
mod conc;
mod decode;
mod driver;
mod exec;
mod gen;
mod interpose;
mod keys;
mod minimise;
mod modes;
mod monitors;
mod procs;
mod props;
mod props_conc;
mod rng;
mod seqrun;
mod sim;

use std::collections::BTreeMap;

pub const BUILD: &str = if cfg!(feature = "conc") { "conc" } else { "seq" };

fn usage() -> ! {
    eprintln!(
        "usage: casim-{BUILD} run <Cxx> [--tier quick|thorough] [--runs n] [--workers w] [--seed s]\n       casim-{BUILD} worker ... (internal)\n       casim-{BUILD} replay <file>\n       casim-{BUILD} selftest determinism [--runs n]\n       casim-{BUILD} show <Cxx> --run i [--tier t] [--seed s]"
    );
    std::process::exit(2)
}

pub fn parse_flags(args: &[String]) -> (Vec<String>, BTreeMap<String, String>) {
    let mut pos = Vec::new();
    let mut flags = BTreeMap::new();
    let mut i = 0;
    while i < args.len() {
        if let Some(name) = args[i].strip_prefix("--") {
            let val = args.get(i + 1).cloned().unwrap_or_default();
            flags.insert(name.to_string(), val);
            i += 2;
        } else {
            pos.push(args[i].clone());
            i += 1;
        }
    }
    (pos, flags)
}

fn main() {
    // quiet panics inside simulated code: they are caught and classified by the harness
    if std::env::var("CASIM_VERBOSE_PANICS").is_err() {
        std::panic::set_hook(Box::new(|_| {}));
    }
    let args: Vec<String> = std::env::args().skip(1).collect();
    if args.is_empty() {
        usage();
    }
    let (pos, flags) = parse_flags(&args[1..]);
    let code = match args[0].as_str() {
        "run" => driver::cmd_run(&pos, &flags),
        "worker" => driver::cmd_worker(&pos, &flags),
        "replay" => driver::cmd_replay(&pos, &flags),
        "run-case" => driver::cmd_run_case(&pos),
        "minimise-case" => driver::cmd_minimise_case(&pos),
        "selftest" => driver::cmd_selftest(&pos, &flags),
        "show" => driver::cmd_show(&pos, &flags),
        "holder" => std::process::exit(procs::cmd_holder(&args[1..])),
        _ => usage(),
    };
    seqrun::cleanup_scratch();
    std::process::exit(code);
}
