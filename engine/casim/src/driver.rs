//! Driver: worker processes, merging, minimisation, replay verification, known findings, evidence.

use std::collections::{BTreeMap, BTreeSet};
use std::io::Read;
use std::path::PathBuf;
use std::process::{Command, Stdio};
use std::time::Instant;

use serde::{Deserialize, Serialize};

use crate::case::{Case, Counters, Outcome, Replay};
use crate::exec::{Failure, Probes};
use crate::props;
use crate::sim::FaultCounts;

pub const DEFAULT_SEED: u64 = 20260922;

pub struct Spec {
    pub id: &'static str,
    pub build: &'static str,
    pub level: &'static str,
    pub quick_runs: u64,
    pub thorough_runs: u64,
    pub rule: &'static str,
}

pub fn spec(prop: &str) -> Option<Spec> {
    let s = |id, build, level, q, t, rule| Some(Spec { id, build, level, quick_runs: q, thorough_runs: t, rule });
    match prop {
        "C01" => s("C01", "seq", "exploration", 6000, 60000, "seeded histories (5-20 ops quick, 5-40 thorough) over 8 key types, 3-6 keys, 3-6 contents, all chunkings, both sync modes, N in {1,2,3,4,5,7,10,10000}; one third with short writes/reads + EINTR; evaluation = one history; distinct_nontrivial = distinct (model state, disk shape) pairs with a non-empty model reached after an operation"),
        _ => crate::props::spec_more(prop),
    }
}

pub fn verif_dir() -> PathBuf {
    PathBuf::from(std::env::var("CASIM_VERIF_DIR").unwrap_or_else(|_| "/verif".into()))
}

#[derive(Clone, Debug, Serialize, Deserialize)]
pub struct Found {
    pub run: u64,
    pub seed: u64,
    pub case: Case,
    pub failure: Failure,
}

#[derive(Clone, Debug, Default, Serialize, Deserialize)]
pub struct WorkerReport {
    pub runs: u64,
    pub counters: Counters,
    pub probes: Probes,
    pub faults: FaultCounts,
    pub found: Vec<Found>,
    pub foreign: Vec<Found>,
    pub foreign_count: u64,
    pub harness_errors: Vec<String>,
    pub fingerprints: Vec<u64>,
    pub samples: Vec<serde_json::Value>,
    pub digests: Vec<(u64, String)>,
    pub site_counts: BTreeMap<String, u64>,
    pub truncated: bool,
}

fn flag_u64(flags: &BTreeMap<String, String>, name: &str) -> Option<u64> {
    flags.get(name).and_then(|v| v.parse().ok())
}

pub fn seed_from(flags: &BTreeMap<String, String>) -> u64 {
    flag_u64(flags, "seed")
        .or_else(|| std::env::var("VERIF_SEED").ok().and_then(|v| v.parse().ok()))
        .unwrap_or(DEFAULT_SEED)
}
pub fn tier_from(flags: &BTreeMap<String, String>) -> String {
    let t = flags.get("tier").cloned().or_else(|| std::env::var("VERIF_TIER").ok()).unwrap_or_else(|| "quick".into());
    if t == "thorough" { t } else { "quick".into() }
}

pub fn sample_of(case: &Case) -> serde_json::Value {
    let wl = &case.workload;
    serde_json::json!({
        "key_type": format!("{:?}", wl.key_type),
        "keys": wl.keys_hex.iter().map(|k| if k.len() > 24 { format!("{}..({}B)", &k[..24], k.len() / 2) } else { k.clone() }).collect::<Vec<_>>(),
        "content_sizes": wl.contents.iter().map(|c| c.size).collect::<Vec<_>>(),
        "cfg": wl.cfg,
        "noise": case.noise,
        "mode": case.mode,
        "ops": wl.ops.iter().map(|o| o.short()).collect::<Vec<_>>(),
    })
}

pub fn run_any(case: &Case) -> Outcome {
    #[cfg(feature = "conc")]
    {
        if crate::conc::is_conc_case(case) {
            return crate::conc::run_case(case);
        }
    }
    let r = std::panic::catch_unwind(std::panic::AssertUnwindSafe(|| crate::seqrun::run_case(case)));
    match r {
        Ok(o) => o,
        Err(p) => {
            let _ = crate::interpose::uninstall();
            let mut o = Outcome::default();
            o.harness_error = Some(format!("harness panic: {}", crate::exec::panic_msg(p)));
            o
        }
    }
}

pub const ABORT_CLASS: &str = "process-abort";

/// a runaway in the code under test (or in the harness) must end as a dead process, not as a machine
/// without memory: 12 GiB of address space is far above anything legitimate. Every process that
/// executes cases (worker, run-case child, replay, minimiser child) runs under the same limit, so
/// that a refused allocation replays as a refused allocation.
pub fn limit_address_space() {
    unsafe {
        let lim = libc::rlimit { rlim_cur: 12 << 30, rlim_max: 12 << 30 };
        libc::setrlimit(libc::RLIMIT_AS, &lim);
    }
}

/// stdout of a dead worker: the run it was executing and the size of the impossible allocation the
/// code under test asked for, if (and only if) the allocator's marker is the reason of the death
fn aborted_run(stdout: &str) -> Option<(u64, usize)> {
    let mut run = None;
    let mut size = None;
    for l in stdout.lines() {
        if let Some(r) = l.strip_prefix("RUN ") {
            run = r.trim().parse::<u64>().ok();
            size = None;
        } else if let Some(n) = l.strip_prefix(crate::alloc::ABSURD_MARKER) {
            size = n.trim().parse::<usize>().ok();
        }
    }
    Some((run?, size?))
}

fn abort_failure(prop: &str, size: usize) -> Failure {
    crate::exec::fail(&[prop], ABORT_CLASS, 0, format!("the process aborted inside the store: an allocation of {size} bytes was requested (an allocation failure aborts, it does not unwind)"))
}

/// run one case in a child process; `Some(size)` if the child died on an impossible allocation
pub fn abort_probe(case: &Case) -> Option<usize> {
    let dir = verif_dir().join("replays");
    let _ = std::fs::create_dir_all(&dir);
    let file = dir.join(format!(".probe-{}.json", std::process::id()));
    std::fs::write(&file, serde_json::to_string(case).ok()?).ok()?;
    let exe = std::env::current_exe().ok()?;
    let out = Command::new(&exe).arg("run-case").arg(&file).stdout(Stdio::piped()).stderr(Stdio::null()).output().ok();
    let _ = std::fs::remove_file(&file);
    let out = out?;
    if out.status.success() {
        return None;
    }
    let s = String::from_utf8_lossy(&out.stdout).to_string();
    aborted_run(&format!("RUN 0\n{s}")).map(|(_, n)| n)
}

/// child side of `abort_probe`
pub fn cmd_run_case(pos: &[String]) -> i32 {
    limit_address_space();
    let Some(path) = pos.first() else { return 2 };
    let Ok(txt) = std::fs::read_to_string(path) else { return 2 };
    let Ok(case) = serde_json::from_str::<Case>(&txt) else { return 2 };
    let _ = run_any(&case);
    0
}

/// the in-process minimiser runs in a child of the driver: a candidate that kills the process (see
/// above) then costs the minimisation, not the verdict
fn minimise_in_child(prop: &str, f: &Found, budget_s: u64) -> (Case, Failure, bool) {
    let fallback = (f.case.clone(), f.failure.clone(), false);
    let dir = verif_dir().join("replays");
    let _ = std::fs::create_dir_all(&dir);
    let inp = dir.join(format!(".min-in-{}.json", std::process::id()));
    let outp = dir.join(format!(".min-out-{}.json", std::process::id()));
    let _ = std::fs::remove_file(&outp);
    if std::fs::write(&inp, serde_json::to_string(f).unwrap()).is_err() {
        return fallback;
    }
    let Ok(exe) = std::env::current_exe() else { return fallback };
    let st = Command::new(&exe).arg("minimise-case").arg(prop).arg(&inp).arg(&outp).arg(budget_s.to_string()).stdout(Stdio::null()).status();
    let res = match st {
        Ok(s) if s.success() => std::fs::read_to_string(&outp).ok().and_then(|t| serde_json::from_str::<(Case, Failure, bool)>(&t).ok()),
        _ => None,
    };
    let _ = std::fs::remove_file(&inp);
    let _ = std::fs::remove_file(&outp);
    res.unwrap_or(fallback)
}

pub fn cmd_minimise_case(pos: &[String]) -> i32 {
    limit_address_space();
    let (Some(prop), Some(inp), Some(outp)) = (pos.first(), pos.get(1), pos.get(2)) else { return 2 };
    let budget = pos.get(3).and_then(|b| b.parse::<u64>().ok()).unwrap_or(30);
    let Ok(txt) = std::fs::read_to_string(inp) else { return 2 };
    let Ok(f) = serde_json::from_str::<Found>(&txt) else { return 2 };
    let known = load_known();
    let r = crate::minimise::minimise(prop, &f.case, &f.failure, budget, &known);
    match std::fs::write(outp, serde_json::to_string(&r).unwrap()) {
        Ok(()) => 0,
        Err(_) => 2,
    }
}

/// minimiser for aborts: every candidate is a child process
fn minimise_abort(case: &Case, budget_s: u64) -> (Case, bool) {
    let start = Instant::now();
    let mut best = case.clone();
    let mut changed = false;
    let mut chunk = (best.workload.ops.len() / 2).max(1);
    while chunk >= 1 && start.elapsed().as_secs() < budget_s {
        let mut i = 0;
        let mut any = false;
        while i < best.workload.ops.len() && best.workload.ops.len() > 1 && start.elapsed().as_secs() < budget_s {
            let mut c = best.clone();
            let end = (i + chunk).min(c.workload.ops.len());
            c.workload.ops.drain(i..end);
            if !c.workload.ops.is_empty() && abort_probe(&c).is_some() {
                best = c;
                changed = true;
                any = true;
            } else {
                i += chunk;
            }
        }
        if chunk == 1 && !any {
            break;
        }
        if !any {
            chunk /= 2;
        }
    }
    (best, changed)
}

pub fn cmd_worker(pos: &[String], flags: &BTreeMap<String, String>) -> i32 {
    let prop = pos.first().cloned().unwrap_or_default();
    let tier = tier_from(flags);
    let seed = seed_from(flags);
    let runs = flag_u64(flags, "runs").unwrap_or(1);
    let stride = flag_u64(flags, "stride").unwrap_or(1);
    let offset = flag_u64(flags, "offset").unwrap_or(0);
    let deadline_s = flag_u64(flags, "deadline").unwrap_or(3600);
    let want_digests = flags.contains_key("digests");
    limit_address_space();
    let start = Instant::now();
    let mut rep = WorkerReport::default();
    let mut fps: BTreeSet<u64> = BTreeSet::new();
    let mut i = offset;
    while i < runs {
        if start.elapsed().as_secs() >= deadline_s {
            rep.truncated = true;
            break;
        }
        let rs = props::run_seed(seed, &prop, &tier, i);
        let case = props::gen_case(&prop, rs, &tier, i);
        // breadcrumb for the driver: which run a dying worker was executing (see alloc.rs)
        println!("RUN {i}");
        let out = run_any(&case);
        rep.runs += 1;
        rep.counters.add(&out.counters);
        rep.probes.add(&out.probes);
        rep.faults.err_fired += out.faults.err_fired;
        rep.faults.short_writes += out.faults.short_writes;
        rep.faults.short_reads += out.faults.short_reads;
        rep.faults.eintr += out.faults.eintr;
        for (k, v) in &out.site_counts {
            *rep.site_counts.entry(k.clone()).or_insert(0) += v;
        }
        for f in &out.fingerprints {
            if fps.len() < 400_000 {
                fps.insert(*f);
            }
        }
        if want_digests {
            rep.digests.push((i, format!("{}|{}", out.log_digest, out.violation.as_ref().map_or("ok".to_string(), |v| v.class.clone()))));
        }
        if let Some(e) = out.harness_error {
            if rep.harness_errors.len() < 3 {
                rep.harness_errors.push(format!("run {i} seed {rs}: {e}"));
            }
        } else if let Some(f) = out.violation.or(out.foreign) {
            let found = Found { run: i, seed: rs, case: case.clone(), failure: f.clone() };
            if f.props.iter().any(|p| *p == prop) {
                if rep.found.len() < 4 {
                    rep.found.push(found);
                }
            } else {
                rep.foreign_count += 1;
                if rep.foreign.len() < 2 {
                    rep.foreign.push(found);
                }
            }
        }
        if rep.samples.len() < 2 && offset == 0 {
            rep.samples.push(sample_of(&case));
        }
        i += stride;
    }
    rep.fingerprints = fps.into_iter().collect();
    println!("{}", serde_json::to_string(&rep).unwrap());
    0
}

#[derive(Clone, Debug, Serialize, Deserialize)]
pub struct KnownFinding {
    pub status: String,
    pub property: String,
    /// exact violation class
    pub class: String,
    /// every listed substring must occur in the violation message
    #[serde(default)]
    pub message_contains: Vec<String>,
    pub what: String,
    #[serde(default)]
    pub commit: String,
}

pub fn load_known() -> Vec<KnownFinding> {
    let p = verif_dir().join("known_findings.json");
    match std::fs::read_to_string(&p) {
        Ok(s) => serde_json::from_str::<serde_json::Value>(&s)
            .ok()
            .and_then(|v| v.get("findings").cloned())
            .and_then(|v| serde_json::from_value(v).ok())
            .unwrap_or_default(),
        Err(_) => Vec::new(),
    }
}

pub fn matches_known<'a>(known: &'a [KnownFinding], prop: &str, f: &Failure) -> Option<&'a KnownFinding> {
    known.iter().find(|k| {
        k.status == "known" && k.property == prop && k.class == f.class && k.message_contains.iter().all(|m| f.message.contains(m.as_str()))
    })
}

pub fn cmd_run(pos: &[String], flags: &BTreeMap<String, String>) -> i32 {
    let Some(prop) = pos.first().cloned() else { return 2 };
    let Some(sp) = crate::props::spec_for_build(&prop) else {
        eprintln!("unknown property {prop}");
        return 2;
    };
    if sp.build != crate::BUILD {
        eprintln!("property {prop} needs the {} build (this is {})", sp.build, crate::BUILD);
        return 2;
    }
    let tier = tier_from(flags);
    let seed = seed_from(flags);
    let runs = flag_u64(flags, "runs").unwrap_or(if tier == "thorough" { sp.thorough_runs } else { sp.quick_runs });
    let workers = flag_u64(flags, "workers").unwrap_or_else(|| std::thread::available_parallelism().map_or(8, |n| n.get() as u64)).max(1);
    let deadline = flag_u64(flags, "deadline").unwrap_or(if tier == "thorough" { 3000 } else { 420 });
    let start = Instant::now();
    println!("casim-{} property={prop} tier={tier} seed={seed} runs={runs} workers={workers}", crate::BUILD);

    let exe = std::env::current_exe().expect("current exe");
    let spawn = |offset: u64| {
        let mut c = Command::new(&exe);
        c.arg("worker").arg(&prop).args(["--tier", &tier, "--seed", &seed.to_string(), "--runs", &runs.to_string(), "--stride", &workers.to_string(), "--offset", &offset.to_string(), "--deadline", &deadline.to_string()]);
        c.stdout(Stdio::piped()).stderr(Stdio::inherit());
        c.spawn().expect("spawn worker")
    };
    let mut children = std::collections::VecDeque::new();
    for w in 0..workers.min(runs.max(1)) {
        children.push_back((spawn(w), 0u32));
    }
    let mut total = WorkerReport::default();
    let mut fps: BTreeSet<u64> = BTreeSet::new();
    let mut harness_fail = false;
    while let Some((mut ch, respawns)) = children.pop_front() {
        let mut s = String::new();
        ch.stdout.take().unwrap().read_to_string(&mut s).ok();
        let status = ch.wait().expect("wait worker");
        let line = s.lines().rev().find(|l| l.starts_with('{')).unwrap_or("");
        match serde_json::from_str::<WorkerReport>(line) {
            _ if !status.success() && aborted_run(&s).is_some() => {
                // the code under test asked for an allocation that cannot exist and the runtime aborted
                // the process: that is the verdict of the run the worker was executing; the rest of this
                // worker's share goes to a fresh worker
                let (i, size) = aborted_run(&s).unwrap();
                let rs = props::run_seed(seed, &prop, &tier, i);
                let case = props::gen_case(&prop, rs, &tier, i);
                total.runs += 1;
                total.found.push(Found { run: i, seed: rs, case, failure: abort_failure(&prop, size) });
                if i + workers < runs && respawns < 40 {
                    children.push_back((spawn(i + workers), respawns + 1));
                } else if i + workers < runs {
                    total.truncated = true;
                }
            }
            Ok(r) if status.success() => {
                total.runs += r.runs;
                total.counters.add(&r.counters);
                total.probes.add(&r.probes);
                total.faults.err_fired += r.faults.err_fired;
                total.faults.short_writes += r.faults.short_writes;
                total.faults.short_reads += r.faults.short_reads;
                total.faults.eintr += r.faults.eintr;
                total.found.extend(r.found);
                total.foreign.extend(r.foreign);
                total.foreign_count += r.foreign_count;
                total.harness_errors.extend(r.harness_errors);
                total.samples.extend(r.samples);
                total.truncated |= r.truncated;
                for (k, v) in r.site_counts {
                    *total.site_counts.entry(k).or_insert(0) += v;
                }
                fps.extend(r.fingerprints);
            }
            _ => {
                eprintln!("HARNESS-ERROR: a worker died ({status}) or produced no report; stdout tail: {}", s.chars().rev().take(300).collect::<String>().chars().rev().collect::<String>());
                harness_fail = true;
            }
        }
    }
    for e in &total.harness_errors {
        eprintln!("HARNESS-ERROR: {e}");
        harness_fail = true;
    }

    // violations: one representative per (class), lowest run first
    total.found.sort_by_key(|f| f.run);
    let mut by_class: BTreeMap<String, Found> = BTreeMap::new();
    for f in total.found.drain(..) {
        by_class.entry(f.failure.class.clone()).or_insert(f);
    }
    let known = load_known();
    let mut violations = 0;
    let mut known_hits: BTreeSet<String> = BTreeSet::new();
    let replay_dir = verif_dir().join("replays");
    let _ = std::fs::create_dir_all(&replay_dir);
    for (class, f) in by_class {
        if let Some(k) = matches_known(&known, &prop, &f.failure) {
            known_hits.insert(k.what.clone());
            continue;
        }
        // minimise, then verify the replay in a fresh process before announcing it
        let min_budget = if tier == "thorough" { 60 } else { 30 };
        let (mcase, mfail, minimised) = if class == ABORT_CLASS {
            let (c, changed) = minimise_abort(&f.case, min_budget);
            (c, f.failure.clone(), changed)
        } else {
            minimise_in_child(&prop, &f, min_budget)
        };
        let file = replay_dir.join(format!("{prop}-{}-{}-{}.json", crate::BUILD, f.seed, f.run));
        let rp = Replay { property: prop.clone(), class: class.clone(), tier: tier.clone(), seed, run: f.run, build: crate::BUILD.into(), minimised, case: mcase, violation: mfail };
        std::fs::write(&file, serde_json::to_string_pretty(&rp).unwrap()).expect("write replay");
        let st = Command::new(&exe).arg("replay").arg(&file).stdout(Stdio::null()).status();
        let reproduced = matches!(st, Ok(s) if s.code() == Some(1));
        if !reproduced {
            // fall back to the unminimised case
            let rp0 = Replay { property: prop.clone(), class: class.clone(), tier: tier.clone(), seed, run: f.run, build: crate::BUILD.into(), minimised: false, case: f.case.clone(), violation: f.failure.clone() };
            std::fs::write(&file, serde_json::to_string_pretty(&rp0).unwrap()).expect("write replay");
            let st = Command::new(&exe).arg("replay").arg(&file).stdout(Stdio::null()).status();
            if !matches!(st, Ok(s) if s.code() == Some(1)) {
                eprintln!("HARNESS-ERROR: violation {prop}/{class} of run {} does not replay deterministically", f.run);
                harness_fail = true;
                continue;
            }
        }
        violations += 1;
        println!("  class={class} run={} op#{}: {}", f.run, rp.violation.op_index, rp.violation.message.lines().next().unwrap_or(""));
        println!("VIOLATION property={prop} replay={}", file.display());
    }
    for k in known.iter().filter(|k| k.status == "known" && k.property == prop) {
        // listed findings are printed on every run (whether or not this run's sample hit them)
        let hit = if known_hits.contains(&k.what) { "reproduced in this run" } else { "not sampled in this run" };
        println!("KNOWN-FINDING: property={prop} {} [{hit}]", k.what);
    }
    if total.foreign_count > 0 {
        let ex = total.foreign.first().map(|f| format!("{:?}/{} (run {})", f.failure.props, f.failure.class, f.run)).unwrap_or_default();
        println!("NOTE: {} run(s) tripped an oracle of another property, e.g. {ex}; run that property's check", total.foreign_count);
    }

    let wall = start.elapsed().as_secs_f64();
    write_evidence(&prop, &sp, &tier, seed, &total, fps.len() as u64, wall, violations, workers);
    println!(
        "runs={} ops={} mutating_calls={} images={} distinct_states={} violations={} wall={:.1}s{}",
        total.runs,
        total.counters.ops,
        total.counters.mutating_calls,
        total.counters.crash_images + total.counters.power_images,
        fps.len(),
        violations,
        wall,
        if total.truncated { " (TRUNCATED by deadline)" } else { "" }
    );
    // a violation that replayed in a fresh process stands even if some worker had a harness problem
    if violations > 0 {
        return 1;
    }
    if harness_fail { 2 } else { 0 }
}

fn write_evidence(prop: &str, sp: &Spec, tier: &str, seed: u64, t: &WorkerReport, distinct: u64, wall: f64, violations: u64, workers: u64) {
    let evaluations = match sp.level {
        "fault_enumeration" => (t.counters.crash_images + t.counters.power_images + t.counters.err_sites + t.counters.damaged_opens + t.counters.forged_opens).max(t.runs),
        _ => if t.counters.schedules > 0 { t.counters.schedules } else { t.runs },
    };
    let mut probes = serde_json::to_value(&t.probes).unwrap();
    if sp.build == "conc" {
        // concurrent build: named rare conditions, counted from the calls issued by tasks inside the
        // concurrent window (task > 0) and from the scheduler
        let g = |k: &str| t.site_counts.get(k).copied().unwrap_or(0);
        let mut m = serde_json::Map::new();
        m.insert("commits-in-window (rename staging->cas by a task)".into(), serde_json::json!(g("task:rename:staging")));
        m.insert("blob-unlinks-in-window".into(), serde_json::json!(g("task:unlink:cas")));
        m.insert("checkpoints-in-window (snapshot renamed by a task: roll-over or explicit)".into(), serde_json::json!(g("task:rename:snapshot-tmp")));
        m.insert("segment-prunes-in-window".into(), serde_json::json!(g("task:unlink:wal")));
        m.insert("reader-lost-race-to-unlink (open of a cas file failed with ENOENT, retried)".into(), serde_json::json!(g("task:open-r:cas:errno2")));
        m.insert("orphan-quarantined-in-window".into(), serde_json::json!(g("task:rename:cas")));
        m.insert("losing-opens (flock refused)".into(), serde_json::json!(g("task:flock:lock:errno11")));
        for k in t.site_counts.keys().filter(|k| k.starts_with("probe:")) {
            m.insert(k["probe:".len()..].to_string(), serde_json::json!(g(k)));
        }
        // held->acquired lock graph over all executions (reported, not judged: a cycle under a
        // common outer lock is benign; only a realised deadlock is a C15 violation)
        let edges: Vec<(String, String)> = t
            .site_counts
            .keys()
            .filter_map(|k| k.strip_prefix("lock-edge:"))
            .filter_map(|e| e.split_once("->"))
            // lock ids restart per open: fold "state#3" to "state"
            .map(|(a, b)| (a.split('#').next().unwrap_or(a).to_string(), b.split('#').next().unwrap_or(b).to_string()))
            .collect::<BTreeSet<_>>()
            .into_iter()
            .collect();
        let mut cyc = Vec::new();
        for (a, b) in &edges {
            if a != b && edges.iter().any(|(x, y)| x == b && y == a) && a < b {
                cyc.push(format!("{a}<->{b}"));
            }
        }
        m.insert("lock-graph-edges".into(), serde_json::json!(edges.len()));
        m.insert(format!("lock-graph: {}", edges.iter().map(|(a, b)| format!("{a}->{b}")).collect::<Vec<_>>().join(", ")), serde_json::json!(1));
        m.insert(format!("lock-graph-2-cycles: [{}]", cyc.join(", ")), serde_json::json!(cyc.len().max(1)));
        probes = serde_json::Value::Object(m);
    }
    let zero: Vec<&String> = probes.as_object().unwrap().iter().filter(|(_, v)| v.as_u64() == Some(0)).map(|(k, _)| k).collect();
    let ev = serde_json::json!({
        "property_id": prop,
        "tier": tier,
        "seed": seed,
        "level": sp.level,
        "coverage": {
            "evaluations": evaluations,
            "distinct_nontrivial": distinct,
            "rule": sp.rule,
            "samples": t.samples,
            "exhaustive": false,
            "simulated_runs": t.runs,
            "runs_per_hour": if wall > 0.0 { (t.runs as f64 / wall * 3600.0) as u64 } else { 0 },
            "simulated_time": "none: the code base has no timers or deadlines; progress is measured in logical steps (intercepted calls)",
            "logical_steps": t.counters.events,
            "counters": t.counters,
            "faults_fired": t.faults,
            "reach_probes": probes,
            "probes_at_zero": zero,
            "call_sites": t.site_counts,
            "workers": workers,
            "truncated_by_deadline": t.truncated,
            "foreign_oracle_trips": t.foreign_count,
            "build": crate::BUILD,
        },
        "assumptions": assumptions(sp.build),
        "wall_s": wall,
        "violations": violations,
    });
    let dir = verif_dir().join("evidence");
    let _ = std::fs::create_dir_all(&dir);
    let path = dir.join(format!("{prop}.json"));
    let mut ev = ev;
    if std::env::var("CASIM_APPEND_EVIDENCE").is_ok() {
        // second part of a two-build check (seq part ran first): merge into one evidence file
        if let Some(old) = std::fs::read_to_string(&path).ok().and_then(|s| serde_json::from_str::<serde_json::Value>(&s).ok()) {
            let oc = &old["coverage"];
            let nc = ev["coverage"].clone();
            let sum = |k: &str| oc[k].as_u64().unwrap_or(0) + nc[k].as_u64().unwrap_or(0);
            let mut samples = oc["samples"].as_array().cloned().unwrap_or_default();
            samples.extend(nc["samples"].as_array().cloned().unwrap_or_default());
            let merged = serde_json::json!({
                "evaluations": sum("evaluations"),
                "distinct_nontrivial": sum("distinct_nontrivial"),
                "rule": format!("sequential part: {} || concurrent part: {}", oc["rule"].as_str().unwrap_or(""), nc["rule"].as_str().unwrap_or("")),
                "samples": samples,
                "exhaustive": false,
                "parts": { "seq": oc, "conc": nc },
            });
            let mut assumptions: Vec<serde_json::Value> = old["assumptions"].as_array().cloned().unwrap_or_default();
            for a in ev["assumptions"].as_array().cloned().unwrap_or_default() {
                if !assumptions.contains(&a) {
                    assumptions.push(a);
                }
            }
            ev["coverage"] = merged;
            ev["assumptions"] = serde_json::Value::Array(assumptions);
            ev["wall_s"] = serde_json::json!(old["wall_s"].as_f64().unwrap_or(0.0) + wall);
            ev["violations"] = serde_json::json!(old["violations"].as_u64().unwrap_or(0) + violations);
        }
    }
    std::fs::write(path, serde_json::to_string_pretty(&ev).unwrap()).expect("write evidence");
}

fn assumptions(build: &str) -> Vec<String> {
    let mut v = vec![
        "real code: all of cassadilia's src/ compiled from the working tree via a shadow manifest; std, tempfile, blake3, serde_json, ahash".to_string(),
        "libc file calls: real, wrapped by the in-binary interposer (pass / fail / shorten / record / yield)".to_string(),
        "kernel tmpfs is the backing store; crash semantics come from SimDisk (cache + durable view per inode), whose cache view is compared with tmpfs after every run (fidelity check)".to_string(),
        "blake3 crate and the checker's independent decoders are the trusted base of the oracles".to_string(),
        "Async fdatasync worker thread and rayon pool are real and uncontrolled (they never change file contents)".to_string(),
    ];
    if build == "conc" {
        v.push("parking_lot::{Mutex,RwLock} replaced by a shim over shuttle primitives (writer-preferring RwLock); caller threads are shuttle coroutines on one OS thread; every lock operation and intercepted libc call is a scheduling point decided by the harness's seeded scheduler".to_string());
    } else {
        v.push("sequential build: real parking_lot, one simulated client thread".to_string());
    }
    v
}

pub fn cmd_replay(pos: &[String], _flags: &BTreeMap<String, String>) -> i32 {
    limit_address_space();
    let Some(path) = pos.first() else { return 2 };
    let txt = match std::fs::read_to_string(path) {
        Ok(t) => t,
        Err(e) => {
            eprintln!("cannot read {path}: {e}");
            return 2;
        }
    };
    let rp: Replay = match serde_json::from_str(&txt) {
        Ok(r) => r,
        Err(e) => {
            eprintln!("not a replay file: {e}");
            return 2;
        }
    };
    if rp.build != crate::BUILD {
        eprintln!("replay needs the {} build", rp.build);
        return 2;
    }
    if rp.class == ABORT_CLASS {
        // the violation is the death of the process: replay it in a child
        return match abort_probe(&rp.case) {
            Some(size) => {
                println!("REPRODUCED property={} class={} op#0\n{}", rp.property, rp.class, abort_failure(&rp.property, size).message);
                1
            }
            None => {
                println!("NOT REPRODUCED: the case does not abort the process");
                0
            }
        };
    }
    let out = run_any(&rp.case);
    if let Some(e) = out.harness_error {
        eprintln!("HARNESS-ERROR: {e}");
        return 2;
    }
    match out.violation {
        Some(f) if f.props.iter().any(|p| *p == rp.property) && f.class == rp.class => {
            println!("REPRODUCED property={} class={} op#{}\n{}", rp.property, f.class, f.op_index, f.message);
            println!("digest={}", out.log_digest);
            1
        }
        Some(f) => {
            println!("DIFFERENT violation: props={:?} class={} (expected {} / {})\n{}", f.props, f.class, rp.property, rp.class, f.message);
            3
        }
        None => {
            println!("NOT REPRODUCED: the case passes");
            0
        }
    }
}

pub fn cmd_show(pos: &[String], flags: &BTreeMap<String, String>) -> i32 {
    let Some(prop) = pos.first() else { return 2 };
    let tier = tier_from(flags);
    let seed = seed_from(flags);
    let run = flag_u64(flags, "run").unwrap_or(0);
    let rs = props::run_seed(seed, prop, &tier, run);
    let case = props::gen_case(prop, rs, &tier, run);
    println!("{}", serde_json::to_string_pretty(&sample_of(&case)).unwrap());
    let out = run_any(&case);
    println!("violation={:?}\nharness_error={:?}\ncounters={:?}\ndigest={}", out.violation, out.harness_error, out.counters, out.log_digest);
    0
}

/// determinism proof: every seed twice, in different processes, at two worker counts
pub fn cmd_selftest(pos: &[String], flags: &BTreeMap<String, String>) -> i32 {
    if pos.first().map(String::as_str) != Some("determinism") {
        eprintln!("selftest: only 'determinism' is implemented here (fidelity runs inside every run)");
        return 2;
    }
    let runs = flag_u64(flags, "runs").unwrap_or(200);
    let seed = seed_from(flags);
    let tier = tier_from(flags);
    let props_list: Vec<String> = flags.get("props").map(|p| p.split(',').map(String::from).collect()).unwrap_or_else(|| crate::props::all_props_for_build());
    let exe = std::env::current_exe().unwrap();
    let mut bad = 0;
    let mut total = 0;
    for prop in &props_list {
        let mut maps: Vec<BTreeMap<u64, String>> = Vec::new();
        for workers in [1u64, 7] {
            let mut m = BTreeMap::new();
            let mut children = Vec::new();
            for w in 0..workers {
                let c = Command::new(&exe)
                    .arg("worker").arg(prop)
                    .args(["--tier", &tier, "--seed", &seed.to_string(), "--runs", &runs.to_string(), "--stride", &workers.to_string(), "--offset", &w.to_string(), "--digests", "1"])
                    .stdout(Stdio::piped()).stderr(Stdio::null()).spawn().unwrap();
                children.push(c);
            }
            for mut ch in children {
                let mut s = String::new();
                ch.stdout.take().unwrap().read_to_string(&mut s).ok();
                let _ = ch.wait();
                let line = s.lines().rev().find(|l| l.starts_with('{')).unwrap_or("");
                if let Ok(r) = serde_json::from_str::<WorkerReport>(line) {
                    for (i, d) in r.digests {
                        m.insert(i, d);
                    }
                    for e in r.harness_errors {
                        eprintln!("HARNESS-ERROR in {prop}: {e}");
                        bad += 1;
                    }
                } else {
                    eprintln!("HARNESS-ERROR: worker for {prop} produced no report");
                    bad += 1;
                }
            }
            maps.push(m);
        }
        for (i, d) in &maps[0] {
            total += 1;
            if maps[1].get(i) != Some(d) {
                bad += 1;
                eprintln!("NONDETERMINISM: {prop} run {i}: {} vs {:?}", d, maps[1].get(i));
            }
        }
        println!("determinism {prop}: {} runs compared at W=1 and W=7", maps[0].len());
    }
    println!("determinism selftest: {total} runs compared, {bad} problems");
    if bad > 0 { 2 } else { 0 }
}
