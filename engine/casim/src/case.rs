//! A *case* is one fully explicit simulated run: workload + fault plan (+ schedule in the conc
//! build). It is what a seed expands to, what a replay file stores, and what the minimiser edits.

use serde::{Deserialize, Serialize};

use crate::exec::{Failure, Probes};
use crate::gen::Workload;
use crate::sim::FaultCounts;

#[derive(Clone, Debug, Default, Serialize, Deserialize)]
pub struct Noise {
    pub short_write_pm: u32,
    pub short_read_pm: u32,
    pub eintr_pm: u32,
    pub seed: u64,
}

#[derive(Clone, Debug, Serialize, Deserialize)]
pub enum Mode {
    /// fault-free (or noise-only) history with the model oracles after every call
    Plain,
    /// F-crash: cut the trace at mutating-call boundaries, recover every image (C03 C06 C08 C12 C20)
    Crash { cuts: CutSel, depth: u32, suffix_every: u32, verify: bool },
    /// F-power: cut + loss sets (C09)
    Power { cuts: CutSel },
    /// F-err: fail one mutating call (C14)
    Err {
        site: SiteSel,
        errno: i32,
        suffix_seed: u64,
        /// a second failing call in a *later* operation: the g-th fallible call after the faulted operation returned
        #[serde(default)]
        second_gap: Option<u64>,
    },
    /// F-cut / F-flip on the un-checkpointed log (C10)
    LogDamage { budget: u32, dseed: u64 },
    /// F-forge of snapshot / log / settings (C16)
    Forge { fseed: u64, budget: u32 },
    /// crash images + planted garbage, scan and clean-up (C08)
    Orphans { pseed: u64 },
    /// F-sched: concurrent program over a pre-state, many schedules (conc build)
    Conc(ConcSpec),
    /// real processes racing for the directory lock (C11, seq build)
    Procs { pseed: u64 },
}

#[derive(Clone, Debug, PartialEq, Eq, Serialize, Deserialize)]
pub enum COp {
    Put { k: usize, c: usize, chunks: Vec<usize>, abort: bool },
    Remove { k: usize },
    RemoveRange { lo: crate::gen::B, hi: crate::gen::B },
    Get { k: usize },
    GetSize { k: usize },
    GetRange { k: usize, start: u64, end: u64 },
    /// get_reader, then (after further scheduling points) drain it
    Reader { k: usize },
    Iter,
    Checkpoint,
    DeleteOrphans,
    Quarantine,
    DeleteOrphan { c: usize },
    /// C11: open the directory, hold it for `hold` small operations, drop it
    OpenHold {
        hold: u32,
        keep_clone: bool,
        recover: bool,
        /// num_ops_per_wal this task opens with (0 = the workload's); C19: racing first opens with
        /// different creation-time settings
        #[serde(default)]
        n: u64,
    },
}

impl COp {
    pub fn short(&self) -> String {
        match self {
            COp::Put { k, c, abort, .. } => format!("put(k{k},c{c}{})", if *abort { ",abort" } else { "" }),
            COp::Remove { k } => format!("rm(k{k})"),
            COp::RemoveRange { lo, hi } => format!("rmrange({lo:?},{hi:?})"),
            COp::Get { k } => format!("get(k{k})"),
            COp::GetSize { k } => format!("size(k{k})"),
            COp::GetRange { k, start, end } => format!("range(k{k},{start},{end})"),
            COp::Reader { k } => format!("reader(k{k})"),
            COp::Iter => "iter".into(),
            COp::Checkpoint => "ckpt".into(),
            COp::DeleteOrphans => "delete_orphans".into(),
            COp::Quarantine => "quarantine_orphans".into(),
            COp::DeleteOrphan { c } => format!("delete_orphan(c{c})"),
            COp::OpenHold { hold, keep_clone, recover, n } => format!("open(hold={hold},clone={keep_clone},recover={recover},n={n})"),
        }
    }
}

#[derive(Clone, Debug, Serialize, Deserialize)]
pub struct ConcSpec {
    /// the workload's `ops` are the sequential pre-history; these are the concurrent tasks
    pub tasks: Vec<Vec<COp>>,
    /// contents planted as unreferenced blobs in the pre-state (orphans)
    pub orphans: Vec<usize>,
    /// main task opens one shared handle (false for C11 programs, whose tasks open themselves)
    pub shared_handle: bool,
    pub schedules: u32,
    pub sseed: u64,
    /// explicit schedule: one execution following these choices (u32::MAX = "continue current")
    pub replay: Option<Vec<u32>>,
    pub strategy: Option<String>,
    /// C11: the racing opens start on a directory that does not exist yet (first-time initialisation)
    #[serde(default)]
    pub fresh_dir: bool,
}

#[derive(Clone, Debug, Serialize, Deserialize)]
pub enum CutSel {
    /// every boundary (bounded by max), else stratified sample
    All { max: u32, sseed: u64 },
    /// explicit list of steps (replay / minimised)
    Steps(Vec<u64>),
}

#[derive(Clone, Debug, Serialize, Deserialize)]
pub enum SiteSel {
    All { max: u32, sseed: u64 },
    Sites(Vec<u64>),
}

#[derive(Clone, Debug, Serialize, Deserialize)]
pub struct Case {
    pub property: String,
    pub workload: Workload,
    pub noise: Option<Noise>,
    pub mode: Mode,
}

#[derive(Clone, Debug, Default, Serialize, Deserialize)]
pub struct Counters {
    pub runs: u64,
    pub ops: u64,
    pub mutating_calls: u64,
    pub events: u64,
    pub crash_images: u64,
    pub power_images: u64,
    pub nested_images: u64,
    pub usability_suffixes: u64,
    pub err_sites: u64,
    pub damaged_opens: u64,
    pub damaged_rejected: u64,
    pub damaged_prefix_ok: u64,
    pub forged_opens: u64,
    pub monitor_evals: u64,
    pub wal_parses: u64,
    pub max_record_len: u64,
    pub exhaustive_cases: u64,
    pub sampled_cases: u64,
    pub schedules: u64,
    pub preemptions: u64,
}

impl Counters {
    pub fn add(&mut self, o: &Counters) {
        let a = serde_json::to_value(&*self).unwrap();
        let b = serde_json::to_value(o).unwrap();
        let mut m = serde_json::Map::new();
        for (k, v) in a.as_object().unwrap() {
            let (x, y) = (v.as_u64().unwrap(), b[k].as_u64().unwrap());
            m.insert(k.clone(), serde_json::json!(if k.starts_with("max_") { x.max(y) } else { x + y }));
        }
        *self = serde_json::from_value(serde_json::Value::Object(m)).unwrap();
    }
}

#[derive(Clone, Debug, Default, Serialize, Deserialize)]
pub struct Outcome {
    pub violation: Option<Failure>,
    /// first violation seen of a property other than the one under check (monitors only)
    pub foreign: Option<Failure>,
    pub harness_error: Option<String>,
    pub counters: Counters,
    pub probes: Probes,
    pub faults: FaultCounts,
    pub log_digest: String,
    /// fingerprints of distinct states/cases reached (for the distinct-state measure)
    pub fingerprints: Vec<u64>,
    pub site_counts: std::collections::BTreeMap<String, u64>,
}

#[derive(Clone, Debug, Serialize, Deserialize)]
pub struct Replay {
    pub property: String,
    pub class: String,
    pub tier: String,
    pub seed: u64,
    pub run: u64,
    pub build: String,
    pub minimised: bool,
    pub case: Case,
    pub violation: Failure,
}
