//! Counting global allocator: records the largest single allocation requested inside a window
//! (C16/C17: "never allocate more than the input", observed from outside).

use std::alloc::{GlobalAlloc, Layout, System};
use std::sync::atomic::{AtomicBool, AtomicUsize, Ordering};

pub struct Counting;

static ON: AtomicBool = AtomicBool::new(false);
static MAX: AtomicUsize = AtomicUsize::new(0);

unsafe impl GlobalAlloc for Counting {
    unsafe fn alloc(&self, l: Layout) -> *mut u8 {
        if ON.load(Ordering::Relaxed) {
            MAX.fetch_max(l.size(), Ordering::Relaxed);
        }
        System.alloc(l)
    }
    unsafe fn alloc_zeroed(&self, l: Layout) -> *mut u8 {
        if ON.load(Ordering::Relaxed) {
            MAX.fetch_max(l.size(), Ordering::Relaxed);
        }
        System.alloc_zeroed(l)
    }
    unsafe fn dealloc(&self, p: *mut u8, l: Layout) {
        System.dealloc(p, l)
    }
    unsafe fn realloc(&self, p: *mut u8, l: Layout, new: usize) -> *mut u8 {
        if ON.load(Ordering::Relaxed) {
            MAX.fetch_max(new, Ordering::Relaxed);
        }
        System.realloc(p, l, new)
    }
}

pub fn window_start() {
    MAX.store(0, Ordering::Relaxed);
    ON.store(true, Ordering::Relaxed);
}
pub fn window_end() -> usize {
    ON.store(false, Ordering::Relaxed);
    MAX.load(Ordering::Relaxed)
}
