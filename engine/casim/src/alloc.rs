//! Counting global allocator: records the largest single allocation requested inside a window
//! (C16/C17: "never allocate more than the input", observed from outside).
//!
//! A request of `ABSURD` bytes or more (1 TiB; the harness itself never asks for a fraction of that)
//! cannot be satisfied and makes the Rust runtime abort the process. So that such an abort is decided
//! rather than reported as a dead worker, the allocator leaves a marker line on stdout first (raw
//! `write` system call, no allocation, not through the interposer); the driver attributes the death
//! of a worker whose last line is that marker to the run it was executing (class `process-abort`).

use std::alloc::{GlobalAlloc, Layout, System};
use std::sync::atomic::{AtomicBool, AtomicUsize, Ordering};

pub struct Counting;

static ON: AtomicBool = AtomicBool::new(false);
static MAX: AtomicUsize = AtomicUsize::new(0);

pub const ABSURD: usize = 1 << 40;
/// a single request of this size or more that the system refuses (workers run under RLIMIT_AS) is
/// marked as well: the harness never asks for anything near it, so the refusal - and the abort that
/// follows - is the doing of the code under test (e.g. a pre-allocation sized by a forged count)
pub const LARGE: usize = 256 << 20;
pub const ABSURD_MARKER: &str = "CASIM-ABSURD-ALLOC ";

#[cold]
fn absurd(size: usize) {
    let mut buf = [0u8; 64];
    let m = ABSURD_MARKER.as_bytes();
    // leading newline: the marker always starts a line of its own
    buf[0] = b'\n';
    buf[1..1 + m.len()].copy_from_slice(m);
    let mut n = 1 + m.len();
    let mut digits = [0u8; 20];
    let mut d = 0;
    let mut v = size;
    loop {
        digits[d] = b'0' + (v % 10) as u8;
        d += 1;
        v /= 10;
        if v == 0 {
            break;
        }
    }
    while d > 0 {
        d -= 1;
        buf[n] = digits[d];
        n += 1;
    }
    buf[n] = b'\n';
    n += 1;
    unsafe {
        libc::syscall(libc::SYS_write, 1 as libc::c_long, buf.as_ptr(), n);
    }
}

unsafe impl GlobalAlloc for Counting {
    unsafe fn alloc(&self, l: Layout) -> *mut u8 {
        if ON.load(Ordering::Relaxed) {
            MAX.fetch_max(l.size(), Ordering::Relaxed);
        }
        if l.size() >= ABSURD {
            absurd(l.size());
        }
        let p = System.alloc(l);
        if p.is_null() && l.size() >= LARGE {
            absurd(l.size());
        }
        p
    }
    unsafe fn alloc_zeroed(&self, l: Layout) -> *mut u8 {
        if ON.load(Ordering::Relaxed) {
            MAX.fetch_max(l.size(), Ordering::Relaxed);
        }
        if l.size() >= ABSURD {
            absurd(l.size());
        }
        let p = System.alloc_zeroed(l);
        if p.is_null() && l.size() >= LARGE {
            absurd(l.size());
        }
        p
    }
    unsafe fn dealloc(&self, p: *mut u8, l: Layout) {
        System.dealloc(p, l)
    }
    unsafe fn realloc(&self, p: *mut u8, l: Layout, new: usize) -> *mut u8 {
        if ON.load(Ordering::Relaxed) {
            MAX.fetch_max(new, Ordering::Relaxed);
        }
        if new >= ABSURD {
            absurd(new);
        }
        let q = System.realloc(p, l, new);
        if q.is_null() && new >= LARGE {
            absurd(new);
        }
        q
    }
}

pub fn window_start() {
    MAX.store(0, Ordering::Relaxed);
    ON.store(true, Ordering::Relaxed);
}
pub fn window_end() -> usize {
    ON.store(false, Ordering::Relaxed);
    MAX.load(Ordering::Relaxed)
}
