//! seed -> Case, per property (DESIGN.md §3).

use crate::case::{Case, Mode, Noise};
use crate::gen::{self, KeyType, Profile, Workload, KEY_TYPES};
use crate::keys::{gen_keys, SimKey};
use crate::rng::{mix, mix_str, Rng};

pub fn run_seed(master: u64, prop: &str, tier: &str, run: u64) -> u64 {
    mix(mix_str(mix_str(master, prop), tier), run)
}

fn keys_hex<K: SimKey>(rng: &mut Rng, n: usize, big: bool) -> Vec<String> {
    gen_keys::<K>(rng, n, big).iter().map(|k| hex::encode(k.kb())).collect()
}

pub fn gen_workload(rng: &mut Rng, p: &Profile) -> Workload {
    let key_type: KeyType = *rng.pick(&KEY_TYPES);
    let nk = 3 + rng.below(p.max_keys.saturating_sub(2).max(1) as u64) as usize;
    let big = p.big_keys && rng.chance(1, 4);
    let keys_hex = crate::dispatch_key_type!(key_type, keys_hex(rng, nk, big));
    let nk = keys_hex.len();
    let cfg = gen::gen_cfg(rng, p);
    let contents = gen::gen_contents(rng, p);
    let content_seed = rng.next();
    let ops = gen::gen_ops(rng, p, nk, &contents, &cfg);
    Workload { key_type, keys_hex, content_seed, contents, cfg, ops }
}

pub fn gen_case(prop: &str, seed: u64, tier: &str) -> Case {
    let mut rng = Rng::new(seed);
    let thorough = tier == "thorough";
    let mut p = Profile::base();
    if thorough {
        p.max_ops = 40;
    }
    let mut noise = None;
    let mode = Mode::Plain;
    match prop {
        "C01" => {
            // second run class "noisy": short writes/reads + EINTR must be invisible
            if rng.chance(1, 3) {
                noise = Some(Noise { short_write_pm: 300, short_read_pm: 300, eintr_pm: 100, seed: rng.next() });
            }
        }
        _ => {}
    }
    let workload = gen_workload(&mut rng, &p);
    Case { property: prop.to_string(), workload, noise, mode }
}

pub fn spec_more(_prop: &str) -> Option<crate::driver::Spec> {
    None
}

pub fn all_props_for_build() -> Vec<String> {
    if cfg!(feature = "conc") {
        vec![]
    } else {
        vec!["C01".into()]
    }
}
