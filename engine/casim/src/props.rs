//! seed -> Case, per property (DESIGN.md §3).

use crate::case::{Case, CutSel, Mode, Noise, SiteSel};
use crate::driver::Spec;
use crate::gen::{self, Cfg, ContentSpec, KeyType, Op, Profile, Workload, KEY_TYPES};
use crate::keys::{gen_keys, SimKey};
use crate::rng::{mix, mix_str, Rng};

pub fn run_seed(master: u64, prop: &str, tier: &str, run: u64) -> u64 {
    mix(mix_str(mix_str(master, prop), tier), run)
}

fn keys_hex<K: SimKey>(rng: &mut Rng, n: usize, big: bool) -> Vec<String> {
    gen_keys::<K>(rng, n, big).iter().map(|k| hex::encode(k.kb())).collect()
}

pub fn gen_keys_hex(rng: &mut Rng, key_type: KeyType, n: usize, big: bool) -> Vec<String> {
    crate::dispatch_key_type!(key_type, keys_hex(rng, n, big))
}

pub fn gen_workload(rng: &mut Rng, p: &Profile) -> Workload {
    let key_type: KeyType = *rng.pick(&KEY_TYPES);
    let nk = 3 + rng.below(p.max_keys.saturating_sub(2).max(1) as u64) as usize;
    let big = p.big_keys && rng.chance(1, 4);
    let keys_hex = gen_keys_hex(rng, key_type, nk, big);
    let nk = keys_hex.len();
    let cfg = gen::gen_cfg(rng, p);
    let contents = gen::gen_contents(rng, p);
    let content_seed = rng.next();
    let ops = gen::gen_ops(rng, p, nk, &contents, &cfg);
    Workload { key_type, keys_hex, content_seed, contents, cfg, ops }
}

fn noise(rng: &mut Rng) -> Noise {
    Noise { short_write_pm: 300, short_read_pm: 300, eintr_pm: 100, seed: rng.next() }
}

fn crash_profile(thorough: bool) -> Profile {
    let mut p = Profile::base();
    p.mutating_only = true;
    p.min_ops = 3;
    p.max_ops = if thorough { 15 } else { 10 };
    p.w_checkpoint = 6;
    p.w_reopen = 3;
    p.w_abort = 3;
    p.w_remove_range = 10;
    p
}

pub fn gen_case(prop: &str, seed: u64, tier: &str, run: u64) -> Case {
    if cfg!(feature = "conc") {
        return crate::props_conc::gen_case(prop, seed, tier, run);
    }
    let mut rng = Rng::new(seed);
    let thorough = tier == "thorough";
    let mut p = Profile::base();
    if thorough {
        p.max_ops = 40;
    }
    let mut nz = None;
    let mut mode = Mode::Plain;
    match prop {
        "C01" => {
            p.huge_contents = true;
            // transactions that stay open across another call on the same handle
            p.w_put_around = 5;
            // second run class "noisy": short writes/reads + EINTR must be invisible
            if rng.chance(1, 3) {
                nz = Some(noise(&mut rng));
            }
        }
        "C02" => {
            p.huge_contents = true;
            p.w_reopen = 14;
            p.w_checkpoint = 8;
            p.boundary_reopen = true;
            p.w_read = 10;
            p.n_choices = vec![1, 1, 2, 3, 4, 5, 7, 10, 10_000];
        }
        "C03" if rng.chance(1, if thorough { 300 } else { 100 }) => {
            // first-time initialisation with the pre-created directory tree, killed inside it; the
            // recovered store must be fully usable (usability suffix after every image)
            p = crash_profile(thorough);
            p.max_ops = 3;
            p.w_reopen = 0;
            let mut steps: Vec<u64> = (0..3).map(|_| 1 + rng.below(66_200)).collect();
            steps.push(66_000 + rng.below(60));
            mode = Mode::Crash { cuts: CutSel::Steps(steps), depth: 1, suffix_every: 1, verify: false };
            let mut workload = gen_workload(&mut rng, &p);
            workload.cfg.pre_create = true;
            workload.cfg.async_mode = false;
            return Case { property: prop.to_string(), workload, noise: None, mode };
        }
        "C03" if rng.chance(1, 30) => {
            // "a multi-key range removal is one operation" also when its record is huge: three byte-string
            // keys of which one or two are very long (> 1 MiB / 400 KiB), all put, then one range removal
            // over all of them, killed at every boundary (seeded change C03-e: a removal split into
            // records of at most 1 MiB each)
            p = crash_profile(thorough);
            let mut keys: Vec<Vec<u8>> = vec![vec![1 + rng.below(5) as u8], vec![0x40, rng.below(256) as u8], vec![0xfe; 1_048_576 + rng.below(3000) as usize]];
            if rng.chance(1, 2) {
                keys[1] = vec![0x40; 400_000 + rng.below(1000) as usize];
                keys.push(vec![0xff; 700_000 + rng.below(1000) as usize]);
            }
            keys.sort();
            let nk = keys.len();
            let cfg = gen::gen_cfg(&mut rng, &p);
            let contents = vec![ContentSpec { stream: 1, size: 5 }, ContentSpec { stream: 2, size: 44 }];
            let mut ops = Vec::new();
            for k in 0..nk {
                let c = rng.below(2) as usize;
                ops.push(Op::Put { k, c, chunks: vec![contents[c].size], abort: false });
            }
            if rng.chance(1, 3) {
                ops.push(Op::Checkpoint);
            }
            ops.push(Op::RemoveRange { lo: gen::B::U, hi: if rng.chance(1, 2) { gen::B::U } else { gen::B::I(nk - 1) } });
            if rng.chance(1, 2) {
                ops.push(Op::Put { k: 0, c: 1, chunks: vec![contents[1].size], abort: false });
            }
            let workload = Workload { key_type: KeyType::Bytes, keys_hex: keys.iter().map(hex::encode).collect(), content_seed: rng.next(), contents, cfg, ops };
            mode = Mode::Crash { cuts: CutSel::All { max: 150, sseed: rng.next() }, depth: 1, suffix_every: 0, verify: false };
            return Case { property: prop.to_string(), workload, noise: None, mode };
        }
        "C03" if rng.chance(1, 12) => {
            // a history long enough for the segment id to gain a digit (9 -> 10): puts only on few
            // keys so that every operation is one version; the crash cuts concentrate on the last
            // operations, i.e. on the roll-over into segment 10 and its checkpoint
            p = crash_profile(thorough);
            let n = *rng.pick(&[2u64, 2, 3]);
            p.n_choices = vec![n];
            p.min_ops = (10 * n + 1) as usize;
            p.max_ops = (10 * n + 3) as usize;
            p.w_abort = 0;
            p.w_remove = 0;
            p.w_remove_range = 0;
            p.w_checkpoint = 0;
            p.w_reopen = 0;
            p.max_keys = 3;
            p.big_contents = false;
            p.big_keys = false;
            mode = Mode::Crash { cuts: CutSel::All { max: 90, sseed: rng.next() }, depth: 1, suffix_every: 0, verify: rng.chance(1, 2) };
        }
        "C03" => {
            p = crash_profile(thorough);
            mode = Mode::Crash {
                cuts: CutSel::All { max: if thorough { 400 } else { 150 }, sseed: rng.next() },
                depth: if thorough && rng.chance(1, 4) { 3 } else { 2 },
                suffix_every: if thorough { 3 } else { 8 },
                verify: rng.chance(1, 2),
            };
        }
        "C06" => match rng.below(4) {
            0 | 1 => {
                p.w_reader = 30;
                p.w_put = 30;
                p.w_remove = 15;
                p.w_remove_range = 10;
                p.w_checkpoint = 6;
                if rng.chance(1, 3) {
                    nz = Some(noise(&mut rng));
                }
            }
            2 => {
                p = crash_profile(thorough);
                mode = Mode::Crash { cuts: CutSel::All { max: 80, sseed: rng.next() }, depth: 1, suffix_every: 0, verify: true };
            }
            _ => {
                p = crash_profile(thorough);
                p.allow_async = false;
                mode = Mode::Power { cuts: CutSel::All { max: 40, sseed: rng.next() } };
            }
        },
        "C07" => {
            p.huge_contents = true;
            p.w_put_around = 4;
            p.w_reopen = 4;
            p.w_audit = 12;
            p.w_remove = 15;
            p.w_remove_range = 8;
        }
        "C08" => {
            p = crash_profile(thorough);
            mode = Mode::Orphans { pseed: rng.next() };
        }
        "C09" => {
            p = crash_profile(thorough);
            p.allow_async = false;
            mode = Mode::Power { cuts: CutSel::All { max: if thorough { 200 } else { 60 }, sseed: rng.next() } };
        }
        "C10" => {
            p = crash_profile(thorough);
            p.w_reopen = 0;
            p.w_checkpoint = 2;
            p.n_choices = vec![2, 3, 5, 10, 10_000, 10_000];
            p.min_ops = 2;
            p.max_ops = 9;
            mode = Mode::LogDamage { budget: if thorough { 6000 } else { 700 }, dseed: rng.next() };
        }
        "C11" => {
            p.min_ops = 0;
            p.max_ops = 0;
            mode = Mode::Procs { pseed: rng.next() };
        }
        "C12" => {
            if rng.chance(1, 4) {
                p = crash_profile(thorough);
                mode = Mode::Crash { cuts: CutSel::All { max: 60, sseed: rng.next() }, depth: 1, suffix_every: 4, verify: false };
            } else {
                p.huge_contents = true;
                p.w_put_around = 4;
                p.w_reopen = 5;
                p.w_audit = 15;
                p.w_put = 40;
                p.w_remove_range = 10;
                p.max_keys = 6;
            }
        }
        "C13" => {
            p.huge_contents = true;
            // "a concurrent or later transaction on the same key is unaffected": also sequentially,
            // one transaction open across another one on the same handle
            p.w_put_around = 12;
            p.w_abort = 30;
            p.w_reopen = 5;
            p.w_put = 20;
            if rng.chance(1, 4) {
                nz = Some(noise(&mut rng));
            }
        }
        "C14" => {
            p = crash_profile(thorough);
            p.max_ops = 8;
            let errno = *rng.pick(&[libc::EIO, libc::ENOSPC, libc::EMFILE, libc::EACCES]);
            // one run in three: a second failing call in a later operation (two failed operations in a
            // row, each hit by a single failing call)
            let second_gap = if rng.chance(1, 3) { Some(rng.below(9)) } else { None };
            mode = Mode::Err { site: SiteSel::All { max: if thorough { 400 } else { 120 }, sseed: rng.next() }, errno, suffix_seed: rng.next(), second_gap };
        }
        "C16" => {
            if rng.chance(1, 5) {
                p.w_reopen = 10;
                p.w_checkpoint = 8;
            } else {
                p = crash_profile(thorough);
                mode = Mode::Forge { fseed: rng.next(), budget: if thorough { 1500 } else { 250 } };
            }
        }
        "C17" => return gen_c17(&mut rng, run),
        "C18" if run > 5 && rng.chance(1, if thorough { 100 } else { 150 }) => {
            // whether a blob can be placed at the path derived from its hash must not depend on the
            // hash: first-time initialisation with the pre-created fan-out tree, killed inside the 65 792
            // mkdirs, then used (same run class as C03 / C19; seeded change C18-e)
            p = crash_profile(thorough);
            p.max_ops = 4;
            p.w_reopen = 0;
            let mut steps: Vec<u64> = (0..4).map(|_| 1 + rng.below(66_200)).collect();
            steps.push(66_000 + rng.below(60));
            mode = Mode::Crash { cuts: CutSel::Steps(steps), depth: 1, suffix_every: 1, verify: false };
            let mut workload = gen_workload(&mut rng, &p);
            workload.cfg.pre_create = true;
            workload.cfg.async_mode = false;
            return Case { property: prop.to_string(), workload, noise: None, mode };
        }
        "C18" if run > 5 && rng.chance(1, 5) => {
            // placement must not trust what already sits at the path: images with a stale file at the
            // hash path of a known content, which is then committed (orphans.rs, C08's machinery)
            p = crash_profile(thorough);
            mode = Mode::Orphans { pseed: rng.next() };
        }
        "C18" => return gen_c18(&mut rng, run),
        "C19" if rng.chance(1, if thorough { 150 } else { 330 }) => {
            // first-time initialisation with the pre-created directory tree, killed inside it: the
            // remembered choice must not change behaviour observably afterwards (usability suffix
            // after every image). 65 792 mkdirs: a handful of sampled cuts, not every boundary.
            p = crash_profile(thorough);
            p.max_ops = 4;
            p.w_reopen = 0;
            let mut steps: Vec<u64> = (0..4).map(|_| 1 + rng.below(66_200)).collect();
            steps.push(66_000 + rng.below(60));
            mode = Mode::Crash { cuts: CutSel::Steps(steps), depth: 1, suffix_every: 1, verify: false };
            let mut workload = gen_workload(&mut rng, &p);
            workload.cfg.pre_create = true;
            workload.cfg.async_mode = false;
            return Case { property: prop.to_string(), workload, noise: None, mode };
        }
        "C19" => {
            p.w_c19 = 14;
            p.w_reopen = 4;
            p.allow_precreate = true;
            p.max_ops = 14;
        }
        "C20" if rng.chance(1, 12) => {
            // a history long enough for the segment id to gain a digit (9 -> 10), killed around the
            // roll-over into segment 10: what recovery writes back (snapshot, pruning) must still equal
            // the acknowledged history (same run class as C03's; seeded change C20-f)
            p = crash_profile(thorough);
            let n = *rng.pick(&[2u64, 2, 3]);
            p.n_choices = vec![n];
            p.min_ops = (10 * n + 1) as usize;
            p.max_ops = (10 * n + 3) as usize;
            p.w_abort = 0;
            p.w_remove = 0;
            p.w_remove_range = 0;
            p.w_checkpoint = 0;
            p.w_reopen = 0;
            p.max_keys = 3;
            p.big_contents = false;
            p.big_keys = false;
            mode = Mode::Crash { cuts: CutSel::All { max: 90, sseed: rng.next() }, depth: 1, suffix_every: 0, verify: false };
        }
        "C20" => match rng.below(4) {
            3 => {
                // versions must not be reused across restarts even when an append failed in between
                // (the version it consumed never reached the log): F-err run class, monitors only
                p = crash_profile(thorough);
                p.max_ops = 7;
                p.n_choices = vec![1, 2, 3, 4, 5];
                let errno = *rng.pick(&[libc::EIO, libc::ENOSPC]);
                let second_gap = if rng.chance(1, 2) { Some(rng.below(9)) } else { None };
                mode = Mode::Err { site: SiteSel::All { max: if thorough { 200 } else { 50 }, sseed: rng.next() }, errno, suffix_seed: rng.next(), second_gap };
            }
            0 => {
                p.w_reopen = 10;
                p.w_checkpoint = 8;
                p.boundary_reopen = true;
                p.w_read = 3;
                p.w_reader = 0;
            }
            1 => {
                p = crash_profile(thorough);
                p.w_reopen = 8;
            }
            _ => {
                p = crash_profile(thorough);
                mode = Mode::Crash { cuts: CutSel::All { max: 60, sseed: rng.next() }, depth: 2, suffix_every: 3, verify: false };
            }
        },
        _ => {}
    }
    let workload = gen_workload(&mut rng, &p);
    Case { property: prop.to_string(), workload, noise: nz, mode }
}

/// C17: the (L, start, end) cube. Runs 0..=6 enumerate all (start,end) in [0, L+2]^2 for L = run;
/// later runs use L around buffer sizes with boundary bounds; half the runs add short reads.
fn gen_c17(rng: &mut Rng, run: u64) -> Case {
    let key_type = *rng.pick(&KEY_TYPES);
    let keys_hex = gen_keys_hex(rng, key_type, 2, false);
    let l: usize = if run <= 6 {
        run as usize
    } else if rng.chance(1, 8) {
        // beyond every plausible internal buffer / pre-allocation cap
        *rng.pick(&[131_072usize, 1_048_575, 1_048_576, 1_048_577, 2_500_000])
    } else {
        *rng.pick(&[7usize, 8, 100, 4095, 4096, 8191, 8192, 8193, 16384, 70_000])
    };
    let contents = vec![ContentSpec { stream: 1, size: l }, ContentSpec { stream: 2, size: (l / 2).max(1) }];
    let mut ops = vec![Op::Put { k: 0, c: 0, chunks: vec![l], abort: false }];
    if run <= 6 {
        for s in 0..=(l as u64 + 2) {
            for e in 0..=(l as u64 + 2) {
                ops.push(Op::GetRange { k: 0, start: s, end: e });
            }
        }
    } else {
        let l64 = l as u64;
        let specials = [0u64, 1, l64 - 1, l64, l64 + 1, (1 << 32) - 1, 1 << 32, 1 << 63, u64::MAX];
        for &s in &specials {
            for &e in &specials {
                ops.push(Op::GetRange { k: 0, start: s, end: e });
            }
        }
        for _ in 0..30 {
            let (s, e) = gen::gen_range_bounds(rng, l64);
            ops.push(Op::GetRange { k: 0, start: s, end: e });
        }
    }
    ops.push(Op::GetRange { k: 1, start: 0, end: 5 }); // absent key
    ops.push(Op::GetSize { k: 0 });
    ops.push(Op::OpenReader { k: 0 });
    // overwrite while the reader is open, then drain: complete original content
    ops.push(Op::Put { k: 0, c: 1, chunks: vec![contents[1].size], abort: false });
    ops.push(Op::GetRange { k: 0, start: 0, end: u64::MAX });
    ops.push(Op::DrainReaders);
    let cfg = Cfg { n: *rng.pick(&[1u64, 3, 10_000]), async_mode: rng.chance(1, 3), scan: false, verify: false, fail_on_integrity: true, pre_create: false };
    let nz = if rng.chance(1, 2) { Some(Noise { short_write_pm: 0, short_read_pm: 500, eintr_pm: 0, seed: rng.next() }) } else { None };
    Case { property: "C17".into(), workload: Workload { key_type, keys_hex, content_seed: rng.next(), contents, cfg, ops }, noise: nz, mode: Mode::Plain }
}

/// C18: chunkings. Runs 0..=5: content of length `run`, *all* 2^(len-1) chunkings (plus variants
/// with empty chunks); later runs: random contents incl. > 8 KiB under short writes / EINTR.
fn gen_c18(rng: &mut Rng, run: u64) -> Case {
    let key_type = *rng.pick(&KEY_TYPES);
    let keys_hex = gen_keys_hex(rng, key_type, 3, false);
    let nk = keys_hex.len();
    let mut ops = Vec::new();
    let contents;
    if run <= 5 {
        let l = run as usize;
        contents = vec![ContentSpec { stream: 1, size: l }];
        let n_masks = if l == 0 { 1 } else { 1u32 << (l - 1) };
        for mask in 0..n_masks {
            let mut chunks = Vec::new();
            let mut cur = 0usize;
            for i in 0..l {
                cur += 1;
                let cut_after = i + 1 < l && mask & (1 << i) != 0;
                if cut_after {
                    chunks.push(cur);
                    cur = 0;
                }
            }
            chunks.push(cur);
            if l == 0 {
                chunks = vec![0];
            }
            ops.push(Op::Put { k: 0, c: 0, chunks: chunks.clone(), abort: false });
            ops.push(Op::Remove { k: 0 });
            // same chunking with empty chunks interleaved, other key, blob re-created
            let mut with_empty = vec![0];
            for c in &chunks {
                with_empty.push(*c);
                with_empty.push(0);
            }
            ops.push(Op::Put { k: 1 % nk, c: 0, chunks: with_empty, abort: false });
            ops.push(Op::Remove { k: 1 % nk });
        }
    } else {
        let mut specs = Vec::new();
        let huge_at = if rng.chance(1, 4) { rng.below(4) } else { 99 };
        for i in 0..4 {
            let size = if i == huge_at {
                *rng.pick(&gen::HUGE_SIZES)
            } else if rng.chance(1, 2) {
                *rng.pick(&gen::SIZES)
            } else {
                rng.below(30_000) as usize
            };
            specs.push(ContentSpec { stream: i + 1, size });
        }
        contents = specs;
        for _ in 0..14 {
            let c = rng.below(contents.len() as u64) as usize;
            let k = rng.below(nk as u64) as usize;
            ops.push(Op::Put { k, c, chunks: gen::gen_chunks(rng, contents[c].size), abort: false });
            if rng.chance(1, 2) {
                ops.push(Op::Remove { k });
            }
            if rng.chance(1, 4) {
                ops.push(Op::Get { k });
            }
        }
    }
    let cfg = Cfg { n: *rng.pick(&[1u64, 4, 10_000]), async_mode: rng.chance(1, 3), scan: true, verify: true, fail_on_integrity: true, pre_create: false };
    let nz = if run > 5 && rng.chance(2, 3) { Some(Noise { short_write_pm: 400, short_read_pm: 100, eintr_pm: 150, seed: rng.next() }) } else { None };
    Case { property: "C18".into(), workload: Workload { key_type, keys_hex, content_seed: rng.next(), contents, cfg, ops }, noise: nz, mode: Mode::Plain }
}

pub fn spec_more(prop: &str) -> Option<Spec> {
    let s = |id, build, level, q, t, rule| Some(Spec { id, build, level, quick_runs: q, thorough_runs: t, rule });
    match prop {
        "C02" => s("C02", "seq", "exploration", 6000, 60000, "seeded histories with Reopen/Checkpoint placed preferentially at version mod N in {0,1,N-1}, runs of consecutive reopens, N=1 over-represented; observable snapshot (iter, get bytes, known_blobs, stats) before drop == after open == model; evaluation = one history; distinct = (model state, disk shape) pairs"),
        "C03" => s("C03", "seq", "fault_enumeration", 500, 5000, "per sampled history (3-10 mutating ops quick, 3-15 thorough) every boundary between mutating calls is a process-kill cut when the trace has <= 150 (400) boundaries, else all boundaries of the last 3 ops + random ones; each image is recovered by the real code and compared with {M_{i-1}, M_i}; every recovery's own trace is cut again (depth 2, sampled depth 3); every 8th (3rd) image continues with clean-up + a usability suffix; evaluation = one judged image; distinct = (cut index, chosen model, call, role) fingerprints"),
        "C06" => s("C06", "seq", "exploration", 2500, 25000, "MON-cas-immutable at every intercepted call of reader-heavy histories (readers opened before overwrite/remove/checkpoint, drained after), of crash-image recoveries and of power-loss images; every cas file re-hashed against its name at quiescence"),
        "C07" => s("C07", "seq", "exploration", 6000, 60000, "after every mutating step of every fault-free history: file set under cas/ == {path(blake3(c)) | c referenced in model}, staging/ empty; start-up scan after clean restart reports nothing"),
        "C08" => s("C08", "seq", "exploration", 800, 8000, "crash images of seeded histories plus planted garbage (well-formed names of arbitrary hashes, ill-formed names, stray files at all depths, damaged referenced blobs, leftover staging files); OrphanStats and RecoveryResult compared with the checker's own directory/index comparison; one of the three clean-ups applied and its effect on the directory checked"),
        "C09" => s("C09", "seq", "fault_enumeration", 400, 4000, "Sync mode only; per sampled history, per sampled cut (<= 60 quick / 200 thorough boundaries): all 2^d loss sets of the d dirty files when d <= 4, else all/none/singletons/8 random; power-loss image = directory tree as of the cut, lost files at their last-synced bytes; judged like C03"),
        "C10" => s("C10", "seq", "fault_enumeration", 250, 2500, "per sampled history with an un-checkpointed tail: every truncation offset when the tail is <= 2 KiB (else record-relative offsets {0,1,7,8,39,40,43,44,45,mid,len-1}) and every checksum/payload byte x {^01,^80,!b,random} when <= 1 KiB (else sampled), capped by a per-history budget; open must fail or yield exactly the state after the undamaged prefix"),
        "C11" => s("C11", "seq", "exploration", 48, 480, "separate-process part: real child processes of the harness binary, sequenced by pipe handshakes (deterministic by construction of the handshake, not by a controlled scheduler): owner child opens (and optionally writes) -> the parent's 1-3 opens must fail with AlreadyOpened and leave every file byte-identical -> owner exits or is SIGKILLed -> the parent's open succeeds and reads the owner's acknowledged write -> two children released together: exactly one OPENED, one AlreadyOpened"),
        "C12" => s("C12", "seq", "exploration", 5000, 50000, "known_blobs/contains_blob_hash/stats/get_size vs. model multiplicities after every audit, every reopen and every judged crash recovery; overflow checks enabled in the build"),
        "C13" => s("C13", "seq", "exploration", 5000, 50000, "aborted transactions (30% of ops) at every position, after any chunking, over existing values and existing blobs: directory fingerprint (cas/, staging/, WAL bytes, snapshot) and reads identical before/after, also after reopen"),
        "C14" => s("C14", "seq", "fault_enumeration", 300, 3000, "per sampled history: a dry run counts fallible mutating calls; each (<= 120 quick / 400 thorough, else sampled) is failed once with EIO/ENOSPC/EMFILE/EACCES without side effect; then 2-6 more operations, clean reopen, audit under a per-key {old,new} uncertainty model"),
        "C16" => s("C16", "seq", "exploration", 600, 6000, "round trip through the disk for every key/hash/size the API writes (all key types) + forged snapshots (canonical encodings of arbitrary entries must load exactly and re-encode identically; truncations, boundary counts/lengths, flips, trailing bytes, keys invalid for K) + forged WAL records with valid checksums over mutated payloads; open must return Ok/Err, never panic, never allocate more than file size + slack"),
        "C17" => s("C17", "seq", "exploration", 400, 4000, "runs 0..6 enumerate all (start,end) in [0,L+2]^2 for L=run (exhaustive sub-cube); other runs: L in {7,8,100,4095,4096,8191,8192,8193,16384,70000} x bounds {0,1,L-1,L,L+1,2^32-1,2^32,2^63,2^64-1}^2 + random; half of the runs under short reads (pread64 returns 1..n-1 bytes)"),
        "C18" => s("C18", "seq", "exploration", 1200, 12000, "runs 0..5: all 2^(len-1) chunkings of a len-byte content (+ empty-chunk variants), blob re-created each time; other runs: random contents incl. > 8 KiB with random/straddling chunkings under short writes + EINTR on the staging fd; oracle: hash == blake3(content), size == len, file at the checker-computed path with the exact bytes, no other file"),
        "C19" => s("C19", "seq", "exploration", 3000, 30000, "histories with rejected opens at random positions: wrong num_ops_per_wal (all pairs from the alphabet), forged stored version in {0,1,3,5,2^32-1}, pre_create flipped; rejected open must leave the directory image byte-identical and issue no mutating call except opening LOCK"),
        "C20" => s("C20", "seq", "exploration", 3000, 30000, "MON-wal-wellformed + MON-version-monotone after every mutating call touching the log or snapshot, in plain histories with restarts/checkpoints at segment boundaries and in crash-image recoveries: complete records with valid checksums, at most one trailing end marker, strictly increasing versions inside segment ranges (i*N,(i+1)*N], never reused across restarts, snapshot decodable and monotone, snapshot+log == acknowledged state or in-flight result"),
        _ => crate::props::spec_conc(prop),
    }
}

pub fn spec_conc(_prop: &str) -> Option<Spec> {
    None
}

pub fn spec_for_build(prop: &str) -> Option<Spec> {
    if cfg!(feature = "conc") {
        crate::props_conc::spec(prop)
    } else {
        crate::driver::spec(prop)
    }
}

pub fn all_props_for_build() -> Vec<String> {
    if cfg!(feature = "conc") {
        crate::props_conc::CONC_PROPS.iter().map(|s| s.to_string()).collect()
    } else {
        ["C01", "C02", "C03", "C06", "C07", "C09", "C10", "C12", "C13", "C17", "C18", "C19", "C20"].iter().map(|s| s.to_string()).collect()
    }
}
