//! Workload description and generator (DESIGN.md §2.5). Histories are over *indices* into a sorted
//! key table and a content table, so they are independent of the key type and serialise as-is.

use std::collections::BTreeMap;

use serde::{Deserialize, Serialize};

use crate::rng::Rng;

#[derive(Clone, Copy, Debug, PartialEq, Eq, Serialize, Deserialize)]
pub enum B {
    U,
    I(usize),
    E(usize),
}

#[derive(Clone, Debug, PartialEq, Eq, Serialize, Deserialize)]
pub enum Op {
    /// chunks: sizes of the successive write() calls (0 allowed); they sum to the content length
    Put { k: usize, c: usize, chunks: Vec<usize>, abort: bool },
    Remove { k: usize },
    RemoveRange { lo: B, hi: B },
    Get { k: usize },
    GetSize { k: usize },
    GetRange { k: usize, start: u64, end: u64 },
    OpenReader { k: usize },
    DrainReaders,
    Range { lo: B, hi: B },
    Audit,
    Checkpoint,
    Reopen,
    /// reopen with a different num_ops_per_wal, expect rejection, then reopen correctly (C19)
    ReopenWrongN { n: u64 },
    /// forge db_settings.json version, expect rejection, restore (C19)
    ReopenWrongVersion { v: u64 },
    /// reopen with pre_create_cas_dirs flipped (C19: remembered, not observable)
    ReopenFlipPreCreate,
    /// a transaction on `k` that stays open across `inner`: put(k) and the first half of the chunks,
    /// then `inner` on the same handle, then the remaining chunks and finish() (or drop). The map ends
    /// as if `inner` had run first and the put second. `inner` is a put / remove / remove_range / get /
    /// checkpoint, never a reopen.
    PutAround { k: usize, c: usize, chunks: Vec<usize>, abort: bool, inner: Box<Op> },
}

impl Op {
    pub fn is_mutating(&self) -> bool {
        matches!(self, Op::Put { .. } | Op::PutAround { .. } | Op::Remove { .. } | Op::RemoveRange { .. } | Op::Checkpoint | Op::Reopen)
    }
    pub fn short(&self) -> String {
        match self {
            Op::Put { k, c, chunks, abort } => format!("put(k{k},c{c},{}ch{})", chunks.len(), if *abort { ",abort" } else { "" }),
            Op::Remove { k } => format!("rm(k{k})"),
            Op::RemoveRange { lo, hi } => format!("rmrange({lo:?},{hi:?})"),
            Op::Get { k } => format!("get(k{k})"),
            Op::GetSize { k } => format!("size(k{k})"),
            Op::GetRange { k, start, end } => format!("range(k{k},{start},{end})"),
            Op::OpenReader { k } => format!("reader(k{k})"),
            Op::DrainReaders => "drain".into(),
            Op::Range { lo, hi } => format!("iter({lo:?},{hi:?})"),
            Op::Audit => "audit".into(),
            Op::Checkpoint => "ckpt".into(),
            Op::Reopen => "reopen".into(),
            Op::ReopenWrongN { n } => format!("reopen-wrong-n({n})"),
            Op::ReopenWrongVersion { v } => format!("reopen-wrong-ver({v})"),
            Op::ReopenFlipPreCreate => "reopen-flip-precreate".into(),
            Op::PutAround { k, c, chunks, abort, inner } => format!("put(k{k},c{c},{}ch{},around {})", chunks.len(), if *abort { ",abort" } else { "" }, inner.short()),
        }
    }
}

#[derive(Clone, Copy, Debug, PartialEq, Eq, Serialize, Deserialize)]
pub enum KeyType {
    Str,
    Bytes,
    Arr4,
    U8,
    U32,
    I64,
    U128,
    I128,
}

pub const KEY_TYPES: [KeyType; 8] =
    [KeyType::Str, KeyType::Bytes, KeyType::Arr4, KeyType::U8, KeyType::U32, KeyType::I64, KeyType::U128, KeyType::I128];

#[derive(Clone, Debug, Serialize, Deserialize)]
pub struct Cfg {
    pub n: u64,
    pub async_mode: bool,
    pub scan: bool,
    pub verify: bool,
    pub fail_on_integrity: bool,
    pub pre_create: bool,
}

/// content = first `size` bytes of the byte stream of `stream`
#[derive(Clone, Copy, Debug, PartialEq, Eq, Serialize, Deserialize)]
pub struct ContentSpec {
    pub stream: u64,
    pub size: usize,
}

pub fn content_bytes(seed: u64, spec: &ContentSpec) -> Vec<u8> {
    Rng::new(crate::rng::mix(seed, spec.stream)).bytes(spec.size)
}

#[derive(Clone, Debug, Serialize, Deserialize)]
pub struct Workload {
    pub key_type: KeyType,
    /// hex of each key's byte encoding, in ascending key order
    pub keys_hex: Vec<String>,
    pub content_seed: u64,
    pub contents: Vec<ContentSpec>,
    pub cfg: Cfg,
    pub ops: Vec<Op>,
}

#[derive(Clone, Debug)]
pub struct Profile {
    pub min_ops: usize,
    pub max_ops: usize,
    pub w_put: u64,
    pub w_abort: u64,
    pub w_remove: u64,
    pub w_remove_range: u64,
    pub w_read: u64,
    pub w_reader: u64,
    pub w_audit: u64,
    pub w_checkpoint: u64,
    pub w_reopen: u64,
    pub w_c19: u64,
    /// transactions held open across another call on the same handle (Op::PutAround)
    pub w_put_around: u64,
    pub big_contents: bool,
    /// allow one content of 128 KiB .. 2.5 MiB (only in run classes that take no snapshots)
    pub huge_contents: bool,
    pub big_keys: bool,
    pub allow_async: bool,
    pub allow_precreate: bool,
    pub n_choices: Vec<u64>,
    pub max_keys: usize,
    /// only mutating operations (crash / fault enumeration workloads)
    pub mutating_only: bool,
    pub boundary_reopen: bool,
}

impl Profile {
    pub fn base() -> Profile {
        Profile {
            min_ops: 5,
            max_ops: 20,
            w_put: 30,
            w_abort: 5,
            w_remove: 10,
            w_remove_range: 6,
            w_read: 25,
            w_reader: 5,
            w_audit: 6,
            w_checkpoint: 4,
            w_reopen: 0,
            w_c19: 0,
            w_put_around: 0,
            big_contents: true,
            huge_contents: false,
            big_keys: true,
            allow_async: true,
            allow_precreate: false,
            n_choices: vec![1, 2, 3, 4, 5, 7, 10, 10_000],
            max_keys: 6,
            mutating_only: false,
            boundary_reopen: false,
        }
    }
}

pub const SIZES: [usize; 8] = [0, 1, 5, 44, 8191, 8192, 8193, 70_000];

pub fn gen_bound_pair(rng: &mut Rng, nk: usize) -> (B, B) {
    // valid for BTreeMap::range: start <= end, and not (Excluded(x), Excluded(x))
    let a = rng.below(nk as u64) as usize;
    let b = rng.below(nk as u64) as usize;
    let (a, b) = (a.min(b), a.max(b));
    let lo = match rng.below(3) {
        0 => B::U,
        1 => B::I(a),
        _ => B::E(a),
    };
    let hi = match rng.below(3) {
        0 => B::U,
        1 => B::I(b),
        _ => B::E(b),
    };
    match (lo, hi) {
        (B::E(x), B::E(y)) if x == y => (B::I(x), B::E(y)),
        p => p,
    }
}

pub const HUGE_SIZES: [usize; 7] = [131_071, 131_072, 131_073, 200_000, 1_048_576, 1_048_577, 2_500_000];

pub fn gen_chunks(rng: &mut Rng, len: usize) -> Vec<usize> {
    if len > 100_000 && rng.chance(1, 2) {
        // a large blob streamed in small pieces (how large blobs are written in practice), with a
        // short tail so that bytes are still buffered when the transaction is finished
        let piece = *rng.pick(&[1000usize, 4096, 8191, 8192, 8193, 65_536]);
        let mut out = vec![piece; len / piece];
        if len % piece > 0 {
            out.push(len % piece);
        }
        return out;
    }
    match rng.below(7) {
        0 => vec![len],
        1 if len <= 64 => vec![1; len],
        2 => {
            // empty chunks at start / middle / end
            let cut = if len > 0 { rng.below(len as u64 + 1) as usize } else { 0 };
            vec![0, cut, 0, len - cut, 0]
        }
        3 if len > 8192 => {
            // one chunk larger than the 8 KiB BufWriter, the rest after it
            let big = 8193 + rng.below((len - 8192) as u64) as usize;
            let big = big.min(len);
            vec![big, len - big]
        }
        4 if len >= 2 => {
            // two chunks straddling the buffer boundary when possible
            let cut = if len > 8192 { 8192 - rng.below(3) as usize } else { len / 2 };
            vec![cut, len - cut]
        }
        _ => {
            let mut out = Vec::new();
            let mut left = len;
            let parts = 1 + rng.below(6) as usize;
            for _ in 0..parts {
                if left == 0 {
                    break;
                }
                let c = rng.below(left as u64 + 1) as usize;
                out.push(c);
                left -= c;
            }
            out.push(left);
            out
        }
    }
}

pub fn gen_cfg(rng: &mut Rng, p: &Profile) -> Cfg {
    Cfg {
        n: *rng.pick(&p.n_choices),
        async_mode: p.allow_async && rng.chance(1, 3),
        scan: rng.chance(2, 3),
        verify: rng.chance(1, 2),
        fail_on_integrity: rng.chance(3, 4),
        pre_create: p.allow_precreate && rng.chance(1, 40),
    }
}

pub fn gen_contents(rng: &mut Rng, p: &Profile) -> Vec<ContentSpec> {
    let n = 3 + rng.below(4) as usize;
    let mut v: Vec<ContentSpec> = Vec::new();
    // at most one content per run beyond the usual I/O-buffer sizes: thresholds that code may hide
    // at 128 KiB or 1 MiB are reached by a (rare) blob of a few hundred KiB to a few MiB
    let huge_at = if p.huge_contents && rng.chance(1, 10) { Some(rng.below(n as u64) as usize) } else { None };
    for i in 0..n {
        let size = if huge_at == Some(i) {
            *rng.pick(&HUGE_SIZES)
        } else if rng.chance(2, 3) {
            let s = *rng.pick(&SIZES);
            if s > 10_000 && !p.big_contents { 44 } else { s }
        } else if rng.chance(1, 4) && p.big_contents {
            rng.below(20_000) as usize
        } else {
            rng.below(200) as usize
        };
        // sometimes a prefix of an earlier content (same stream, shorter)
        if i > 0 && rng.chance(1, 5) {
            let base = v[rng.below(i as u64) as usize];
            let spec = ContentSpec { stream: base.stream, size: size.min(base.size) };
            if !v.contains(&spec) {
                v.push(spec);
                continue;
            }
        }
        v.push(ContentSpec { stream: i as u64 + 1, size });
    }
    // distinct specs (two empty contents of different streams are the same bytes: merge)
    let mut seen_empty = false;
    v.retain(|c| {
        if c.size == 0 {
            if seen_empty {
                return false;
            }
            seen_empty = true;
        }
        true
    });
    v
}

/// shadow of key presence while generating, so that the generator can count WAL versions
struct Shadow {
    present: BTreeMap<usize, usize>,
    version: u64,
}

fn in_range(lo: B, hi: B, k: usize) -> bool {
    (match lo {
        B::U => true,
        B::I(a) => k >= a,
        B::E(a) => k > a,
    }) && (match hi {
        B::U => true,
        B::I(b) => k <= b,
        B::E(b) => k < b,
    })
}

pub fn gen_ops(rng: &mut Rng, p: &Profile, nk: usize, contents: &[ContentSpec], cfg: &Cfg) -> Vec<Op> {
    let n_ops = rng.range(p.min_ops as u64, p.max_ops as u64) as usize;
    // swarm: switch some kinds off entirely for this run
    let sw = |rng: &mut Rng, w: u64| if w > 0 && rng.chance(1, 6) { 0 } else { w };
    let w = [
        sw(rng, p.w_put).max(1),
        sw(rng, p.w_abort),
        sw(rng, p.w_remove),
        sw(rng, p.w_remove_range),
        if p.mutating_only { 0 } else { sw(rng, p.w_read) },
        if p.mutating_only { 0 } else { sw(rng, p.w_reader) },
        if p.mutating_only { 0 } else { p.w_audit },
        sw(rng, p.w_checkpoint),
        p.w_reopen,
        p.w_c19,
        p.w_put_around,
    ];
    let total: u64 = w.iter().sum();
    let mut sh = Shadow { present: BTreeMap::new(), version: 0 };
    let mut ops = Vec::new();
    let nc = contents.len();
    while ops.len() < n_ops {
        // position-aware restart placement (C02): at segment boundaries
        if p.boundary_reopen && sh.version > 0 {
            let m = sh.version % cfg.n;
            if (m == 0 || m == 1 || m == cfg.n - 1) && rng.chance(1, 4) {
                ops.push(if rng.chance(2, 3) { Op::Reopen } else { Op::Checkpoint });
                if rng.chance(1, 4) {
                    ops.push(Op::Reopen);
                }
                continue;
            }
        }
        let mut x = rng.below(total);
        let mut kind = 0;
        for (i, wi) in w.iter().enumerate() {
            if x < *wi {
                kind = i;
                break;
            }
            x -= wi;
        }
        let k = rng.below(nk as u64) as usize;
        match kind {
            0 | 1 => {
                // bias towards interesting collisions: same content as an existing key, re-put unchanged
                let c = if !sh.present.is_empty() && rng.chance(1, 3) {
                    let vals: Vec<usize> = sh.present.values().copied().collect();
                    *rng.pick(&vals)
                } else {
                    rng.below(nc as u64) as usize
                };
                let abort = kind == 1;
                let chunks = gen_chunks(rng, contents[c].size);
                if !abort {
                    sh.present.insert(k, c);
                    sh.version += 1;
                }
                ops.push(Op::Put { k, c, chunks, abort });
            }
            2 => {
                // prefer present keys
                let k = if !sh.present.is_empty() && rng.chance(3, 4) {
                    let ks: Vec<usize> = sh.present.keys().copied().collect();
                    *rng.pick(&ks)
                } else {
                    k
                };
                if sh.present.remove(&k).is_some() {
                    sh.version += 1;
                }
                ops.push(Op::Remove { k });
            }
            3 => {
                let (lo, hi) = gen_bound_pair(rng, nk);
                let hit: Vec<usize> = sh.present.keys().copied().filter(|&k| in_range(lo, hi, k)).collect();
                if !hit.is_empty() {
                    sh.version += 1;
                }
                for h in hit {
                    sh.present.remove(&h);
                }
                ops.push(Op::RemoveRange { lo, hi });
            }
            4 => match rng.below(4) {
                0 => ops.push(Op::Get { k }),
                1 => ops.push(Op::GetSize { k }),
                2 => {
                    let l = sh.present.get(&k).map_or(10, |&c| contents[c].size) as u64;
                    let (s, e) = gen_range_bounds(rng, l);
                    ops.push(Op::GetRange { k, start: s, end: e });
                }
                _ => {
                    let (lo, hi) = gen_bound_pair(rng, nk);
                    ops.push(Op::Range { lo, hi });
                }
            },
            5 => {
                if rng.chance(2, 3) {
                    let k = if !sh.present.is_empty() {
                        let ks: Vec<usize> = sh.present.keys().copied().collect();
                        *rng.pick(&ks)
                    } else {
                        k
                    };
                    ops.push(Op::OpenReader { k });
                } else {
                    ops.push(Op::DrainReaders);
                }
            }
            6 => ops.push(Op::Audit),
            7 => ops.push(Op::Checkpoint),
            8 => {
                ops.push(Op::Reopen);
                if rng.chance(1, 5) {
                    ops.push(Op::Reopen);
                }
            }
            10 => {
                // a transaction kept open across another call; half of the time it carries the bytes
                // the key holds when it is opened (what a stale "unchanged re-put" shortcut would drop)
                let c = match sh.present.get(&k) {
                    Some(&cur) if rng.chance(1, 2) => cur,
                    _ => rng.below(nc as u64) as usize,
                };
                let abort = rng.chance(1, 4);
                let chunks = gen_chunks(rng, contents[c].size);
                let k2 = rng.below(nk as u64) as usize;
                let inner = match rng.below(8) {
                    0 | 1 => Op::Remove { k },
                    2 => Op::RemoveRange { lo: B::I(k.min(k2)), hi: B::I(k.max(k2)) },
                    3 | 4 => {
                        let c2 = rng.below(nc as u64) as usize;
                        Op::Put { k, c: c2, chunks: gen_chunks(rng, contents[c2].size), abort: rng.chance(1, 5) }
                    }
                    5 => {
                        let c2 = rng.below(nc as u64) as usize;
                        Op::Put { k: k2, c: c2, chunks: gen_chunks(rng, contents[c2].size), abort: false }
                    }
                    6 => Op::Get { k },
                    _ => Op::Checkpoint,
                };
                match &inner {
                    Op::Remove { k } => {
                        if sh.present.remove(k).is_some() {
                            sh.version += 1;
                        }
                    }
                    Op::RemoveRange { lo, hi } => {
                        let hit: Vec<usize> = sh.present.keys().copied().filter(|&x| in_range(*lo, *hi, x)).collect();
                        if !hit.is_empty() {
                            sh.version += 1;
                        }
                        for h in hit {
                            sh.present.remove(&h);
                        }
                    }
                    Op::Put { k, c, abort: false, .. } => {
                        sh.present.insert(*k, *c);
                        sh.version += 1;
                    }
                    _ => {}
                }
                if !abort {
                    sh.present.insert(k, c);
                    sh.version += 1;
                }
                ops.push(Op::PutAround { k, c, chunks, abort, inner: Box::new(inner) });
            }
            _ => match rng.below(3) {
                0 => {
                    let mut n2 = *rng.pick(&p.n_choices);
                    if n2 == cfg.n {
                        n2 = cfg.n + 1;
                    }
                    ops.push(Op::ReopenWrongN { n: n2 });
                }
                // (0xffff_fffe = exec::TORN_SETTINGS: the settings file cut short + another segment size)
                1 => ops.push(Op::ReopenWrongVersion { v: *rng.pick(&[0u64, 1, 3, 5, 4_294_967_295, 0xffff_fffe, 0xffff_fffe]) }),
                _ => ops.push(Op::ReopenFlipPreCreate),
            },
        }
    }
    ops
}

/// (start,end) biased to the boundaries C17 names
pub fn gen_range_bounds(rng: &mut Rng, l: u64) -> (u64, u64) {
    let specials = [
        0u64,
        1,
        l.saturating_sub(1),
        l,
        l + 1,
        l + 2,
        (1 << 32) - 1,
        1 << 32,
        1 << 63,
        u64::MAX,
        u64::MAX - 1,
    ];
    let pickv = |rng: &mut Rng| {
        if rng.chance(1, 2) {
            *rng.pick(&specials)
        } else {
            rng.below(l + 3)
        }
    };
    let a = pickv(rng);
    let b = pickv(rng);
    if rng.chance(1, 6) {
        (a, b) // may be inverted
    } else {
        (a.min(b), a.max(b))
    }
}
