//! SimDisk + per-thread simulation state (DESIGN.md §2.2, §2.3).
//!
//! tmpfs is the backing store the code under test reads from; `Disk` is the harness's own model
//! of it (cache view + durable view per inode), from which crash images are cut.

use std::collections::{BTreeMap, BTreeSet, HashMap};
use std::sync::Arc;

use libc::c_int;

use crate::interpose::Verdict;
use crate::monitors::Monitors;
use crate::rng::Rng;

#[derive(Clone, Debug)]
pub struct FileNode {
    /// bytes the process sees (page cache)
    pub cache: Arc<Vec<u8>>,
    /// bytes as of the last fsync/fdatasync of this inode (never synced => empty)
    pub durable: Arc<Vec<u8>>,
    pub dirty: bool,
    /// was ever linked under db/cas/ (MON-cas-immutable)
    pub ever_cas: bool,
}

#[derive(Clone, Debug, Default)]
pub struct Disk {
    pub files: BTreeMap<String, usize>,
    pub dirs: BTreeSet<String>,
    pub inodes: Vec<FileNode>,
}

#[derive(Clone, Copy, Debug, PartialEq, Eq)]
pub enum ImageKind {
    /// kill -9: every file has its cache bytes
    ProcessKill,
    /// power loss: files whose index is in the loss set have their durable bytes
    PowerLoss,
}

impl Disk {
    pub fn file(&self, rel: &str) -> Option<&FileNode> {
        self.files.get(rel).map(|&i| &self.inodes[i])
    }
    pub fn bytes(&self, rel: &str) -> Option<&[u8]> {
        self.file(rel).map(|f| f.cache.as_slice())
    }
    pub fn list(&self, prefix: &str) -> Vec<(&String, &FileNode)> {
        self.files
            .range(prefix.to_string()..)
            .take_while(|(k, _)| k.starts_with(prefix))
            .map(|(k, &i)| (k, &self.inodes[i]))
            .collect()
    }
    /// paths of files whose unsynced bytes differ from their durable bytes
    pub fn dirty_files(&self) -> Vec<String> {
        self.files
            .iter()
            .filter(|(_, &i)| self.inodes[i].dirty && self.inodes[i].cache != self.inodes[i].durable)
            .map(|(k, _)| k.clone())
            .collect()
    }

    /// Write this image under `dir` (which must be empty / absent). `lose`: set of rel paths that
    /// get their durable bytes (power loss), everything else gets cache bytes.
    pub fn materialise(&self, dir: &std::path::Path, lose: &BTreeSet<String>) -> std::io::Result<()> {
        let _b = crate::interpose::Bypass::new();
        std::fs::create_dir_all(dir)?;
        for d in &self.dirs {
            std::fs::create_dir_all(dir.join(d))?;
        }
        for (p, &i) in &self.files {
            let node = &self.inodes[i];
            let bytes = if lose.contains(p) { &node.durable } else { &node.cache };
            std::fs::write(dir.join(p), bytes.as_slice())?;
        }
        Ok(())
    }

    /// Build the model from a real directory (used when a Sim starts on an existing image).
    pub fn from_dir(dir: &std::path::Path) -> std::io::Result<Disk> {
        let _b = crate::interpose::Bypass::new();
        let mut d = Disk::default();
        fn walk(d: &mut Disk, base: &std::path::Path, rel: &str) -> std::io::Result<()> {
            let here = if rel.is_empty() { base.to_path_buf() } else { base.join(rel) };
            let mut names: Vec<_> = std::fs::read_dir(&here)?.collect::<Result<Vec<_>, _>>()?;
            names.sort_by_key(|e| e.file_name());
            for e in names {
                let name = e.file_name().to_string_lossy().into_owned();
                let r = if rel.is_empty() { name } else { format!("{rel}/{name}") };
                let ft = e.file_type()?;
                if ft.is_dir() {
                    d.dirs.insert(r.clone());
                    walk(d, base, &r)?;
                } else {
                    let bytes = Arc::new(std::fs::read(e.path())?);
                    let ever_cas = r.starts_with("db/cas/");
                    d.inodes.push(FileNode { cache: bytes.clone(), durable: bytes, dirty: false, ever_cas });
                    d.files.insert(r, d.inodes.len() - 1);
                }
            }
            Ok(())
        }
        walk(&mut d, dir, "")?;
        Ok(d)
    }

    /// Fidelity self-check (§2.2): the cache view must equal the real directory byte for byte.
    pub fn fidelity(&self, dir: &std::path::Path) -> Result<(), String> {
        let real = Disk::from_dir(dir).map_err(|e| format!("fidelity walk failed: {e}"))?;
        if real.dirs != self.dirs {
            let a: Vec<_> = real.dirs.symmetric_difference(&self.dirs).take(5).collect();
            return Err(format!("directory sets differ, e.g. {a:?}"));
        }
        let rk: Vec<_> = real.files.keys().collect();
        let mk: Vec<_> = self.files.keys().collect();
        if rk != mk {
            return Err(format!("file sets differ: real={rk:?} model={mk:?}"));
        }
        for (p, &i) in &self.files {
            let want = &self.inodes[i].cache;
            let got = real.bytes(p).unwrap();
            if want.as_slice() != got {
                return Err(format!("content of {p} differs: model {} bytes, real {} bytes", want.len(), got.len()));
            }
        }
        Ok(())
    }
}

#[derive(Clone, Copy, Debug, PartialEq, Eq, serde::Serialize, serde::Deserialize)]
pub enum Call {
    OpenRead,
    OpenWrite,
    Close,
    Write,
    Read,
    Sync,
    Rename,
    Unlink,
    Mkdir,
    Rmdir,
    Flock,
    Truncate,
}

impl Call {
    pub fn name(self) -> &'static str {
        match self {
            Call::OpenRead => "open-r",
            Call::OpenWrite => "open-w",
            Call::Close => "close",
            Call::Write => "write",
            Call::Read => "read",
            Call::Sync => "sync",
            Call::Rename => "rename",
            Call::Unlink => "unlink",
            Call::Mkdir => "mkdir",
            Call::Rmdir => "rmdir",
            Call::Flock => "flock",
            Call::Truncate => "truncate",
        }
    }
}

#[derive(Clone, Debug)]
pub struct Ev {
    /// index among mutating calls (0 for non-mutating events)
    pub step: u64,
    /// operation index of the workload in flight
    pub op: u32,
    pub task: u32,
    pub call: Call,
    pub path: String,
    pub path2: String,
    pub len: u64,
    pub off: u64,
    /// 0 ok, else errno
    pub err: i32,
    pub fault: &'static str,
    pub mutating: bool,
}

#[derive(Clone, Debug)]
pub struct Snap {
    /// the image is the state *before* mutating call `step` (or the final state, step = u64::MAX)
    pub step: u64,
    pub op: u32,
    pub call: Call,
    pub role: String,
    pub disk: Disk,
    pub versions_seen: BTreeMap<u64, [u8; 32]>,
}

#[derive(Clone, Debug, Default)]
pub struct FaultPlan {
    /// fail the fallible mutating call with this index (counted from 0 over the run)
    pub fail_at: Option<u64>,
    pub fail_errno: c_int,
    /// a second failing call: the `g`-th fallible mutating call issued after the harness armed it
    /// (i.e. after the operation hit by the first fault has returned)
    pub second_gap: Option<u64>,
    /// probability (per mille) that a write is shortened / a read is shortened / EINTR is returned
    pub short_write_pm: u32,
    pub short_read_pm: u32,
    pub eintr_pm: u32,
}

#[derive(Clone, Debug, Default, serde::Serialize, serde::Deserialize)]
pub struct FaultCounts {
    pub err_fired: u64,
    pub short_writes: u64,
    pub short_reads: u64,
    pub eintr: u64,
}

struct FdInfo {
    ino: usize,
    rel: String,
    writable: bool,
}

pub struct Sim {
    /// absolute prefix (with trailing '/') under which calls are simulated
    pub root: String,
    pub disk: Disk,
    fds: HashMap<c_int, FdInfo>,
    pub trace: Vec<Ev>,
    pub keep_trace: bool,
    pub step: u64,
    pub events: u64,
    pub fallible_seen: u64,
    pub cur_op: u32,
    pub cur_task: u32,
    pub plan: FaultPlan,
    pub frng: Rng,
    pub counts: FaultCounts,
    pub fired_at: Option<(u64, Call, String)>,
    pub second_armed: bool,
    pub second_seen: u64,
    pub second_fired: Option<(u64, Call, String)>,
    pub snap_all: bool,
    /// when set, snapshots are taken only before these steps (traces with tens of thousands of
    /// calls, e.g. the pre-created directory tree)
    pub snap_steps: Option<BTreeSet<u64>>,
    pub snaps: Vec<Snap>,
    pub mon: Monitors,
    /// first harness error (unmodelled call etc.)
    pub harness_error: Option<String>,
    /// per-op ranges of fallible-call indices [start,end)
    pub op_fallible: Vec<(u32, u64, u64)>,
    /// canonical event log hash state
    pub log_hash: blake3::Hasher,
    staging_names: HashMap<String, usize>,
    /// number of times each (call, role) pair was observed
    pub site_counts: BTreeMap<String, u64>,
}

pub fn role_of(rel: &str) -> String {
    // rel is relative to the simulation root: "db/..." is the database, anything else "other".
    let Some(r) = rel.strip_prefix("db/") else {
        return if rel == "db" { "dbdir".into() } else { "other".into() };
    };
    if r == "LOCK" {
        "lock".into()
    } else if r == "index" {
        "snapshot".into()
    } else if r == "index.tmp" {
        "snapshot-tmp".into()
    } else if r == "db_settings.json" {
        "settings".into()
    } else if r == "db_settings.json.tmp" {
        "settings-tmp".into()
    } else if r.ends_with("_index.wal") {
        "wal".into()
    } else if r == "staging" || r == "cas" {
        "dir".into()
    } else if r.starts_with("staging/") {
        "staging".into()
    } else if r.starts_with("cas/") {
        if r.len() >= "cas/aa/bb/".len() + 1 && r.matches('/').count() == 3 {
            "cas".into()
        } else {
            "casdir".into()
        }
    } else {
        "other".into()
    }
}

impl Sim {
    pub fn new(root: &std::path::Path, seed: u64) -> Sim {
        let mut root = root.to_str().expect("utf-8 root").to_string();
        if !root.ends_with('/') {
            root.push('/');
        }
        Sim {
            root,
            disk: Disk::default(),
            fds: HashMap::new(),
            trace: Vec::new(),
            keep_trace: false,
            step: 0,
            events: 0,
            fallible_seen: 0,
            cur_op: 0,
            cur_task: 0,
            plan: FaultPlan::default(),
            frng: Rng::new(seed ^ 0xfa17_fa17_fa17_fa17),
            counts: FaultCounts::default(),
            fired_at: None,
            second_armed: false,
            second_seen: 0,
            second_fired: None,
            snap_all: false,
            snap_steps: None,
            snaps: Vec::new(),
            mon: Monitors::default(),
            harness_error: None,
            op_fallible: Vec::new(),
            log_hash: blake3::Hasher::new(),
            staging_names: HashMap::new(),
            site_counts: BTreeMap::new(),
        }
    }

    /// Start from an existing directory content (root must exist).
    pub fn from_existing(root: &std::path::Path, seed: u64) -> Sim {
        let mut s = Sim::new(root, seed);
        s.disk = Disk::from_dir(root).expect("read existing image");
        s
    }

    pub fn rel(&self, abs: &str) -> Option<String> {
        let r = abs.strip_prefix(self.root.as_str())?;
        let r = r.trim_end_matches('/');
        // normalise "a//b" and "./"
        if r.contains("//") || r.contains("/./") || r.contains("..") {
            let parts: Vec<&str> = r.split('/').filter(|c| !c.is_empty() && *c != ".").collect();
            if parts.iter().any(|c| *c == "..") {
                return None;
            }
            return Some(parts.join("/"));
        }
        Some(r.to_string())
    }

    pub fn fd_tracked(&self, fd: c_int) -> bool {
        self.fds.contains_key(&fd)
    }
    pub fn forget_fd(&mut self, fd: c_int) {
        self.fds.remove(&fd);
    }

    pub fn unmodelled(&mut self, what: &str) {
        if self.harness_error.is_none() {
            self.harness_error = Some(format!("unmodelled call: {what}"));
        }
    }
    pub fn unmodelled_if_tracked_dirfd(&mut self, what: &str, dirfd: c_int, p: &str) {
        if self.fds.contains_key(&dirfd) {
            self.unmodelled(&format!("{what}(dirfd, {p})"));
        }
    }

    fn canon(&mut self, rel: &str) -> String {
        // staging names are random: number them in creation order for the canonical log
        if let Some(name) = rel.strip_prefix("db/staging/") {
            let n = self.staging_names.len();
            let id = *self.staging_names.entry(name.to_string()).or_insert(n);
            return format!("db/staging/#{id}");
        }
        rel.to_string()
    }

    fn record(&mut self, mut ev: Ev) {
        self.events += 1;
        ev.op = self.cur_op;
        ev.task = self.cur_task;
        let p1 = self.canon(&ev.path);
        let p2 = if ev.path2.is_empty() { String::new() } else { self.canon(&ev.path2) };
        let line = format!(
            "{} {} {} {} {} {} {} {} {} {}\n",
            ev.step, ev.op, ev.task, ev.call.name(), p1, p2, ev.len, ev.off, ev.err, ev.fault
        );
        self.log_hash.update(line.as_bytes());
        if trace_enabled() {
            eprint!("TRACE {line}");
        }
        let site = format!("{}:{}", ev.call.name(), role_of(&ev.path));
        if ev.err != 0 && ev.err != libc::EEXIST {
            *self.site_counts.entry(format!("{site}:errno{}", ev.err)).or_insert(0) += 1;
        }
        if ev.task > 0 {
            // inside the concurrent window (conc build): reach probes are derived from these
            *self.site_counts.entry(format!("task:{site}{}", if ev.err != 0 && ev.err != libc::EEXIST { format!(":errno{}", ev.err) } else { String::new() })).or_insert(0) += 1;
        }
        *self.site_counts.entry(site).or_insert(0) += 1;
        self.mon.on_event(&self.disk, &ev);
        if self.keep_trace {
            self.trace.push(ev);
        }
    }

    fn ev(&self, call: Call, path: &str, mutating: bool) -> Ev {
        Ev {
            step: if mutating { self.step } else { 0 },
            op: 0,
            task: 0,
            call,
            path: path.to_string(),
            path2: String::new(),
            len: 0,
            off: 0,
            err: 0,
            fault: "",
            mutating,
        }
    }

    /// bookkeeping common to all mutating calls, *before* the call: number it, snapshot, decide fault
    fn pre_mut(&mut self, call: Call, rel: &str) -> Verdict {
        self.step += 1;
        if self.snap_all && self.snap_steps.as_ref().map_or(true, |s| s.contains(&self.step)) {
            self.snaps.push(Snap {
                step: self.step,
                op: self.cur_op,
                call,
                role: role_of(rel),
                disk: self.disk.clone(),
                versions_seen: self.mon.versions_seen.clone(),
            });
        }
        let idx = self.fallible_seen;
        self.fallible_seen += 1;
        if self.plan.fail_at == Some(idx) {
            self.counts.err_fired += 1;
            self.fired_at = Some((idx, call, rel.to_string()));
            return Verdict::Fail(if self.plan.fail_errno != 0 { self.plan.fail_errno } else { libc::EIO });
        }
        if self.second_armed && self.second_fired.is_none() {
            if let Some(g) = self.plan.second_gap {
                let n = self.second_seen;
                self.second_seen += 1;
                if n == g {
                    self.counts.err_fired += 1;
                    self.second_fired = Some((idx, call, rel.to_string()));
                    // the event-log marker ("err") looks at the most recent firing
                    self.fired_at = Some((idx, call, rel.to_string()));
                    return Verdict::Fail(if self.plan.fail_errno != 0 { self.plan.fail_errno } else { libc::EIO });
                }
            }
        }
        Verdict::Pass
    }

    pub fn take_final_snapshot(&mut self) {
        self.snaps.push(Snap {
            step: u64::MAX,
            op: self.cur_op,
            call: Call::Close,
            role: "final".into(),
            disk: self.disk.clone(),
            versions_seen: self.mon.versions_seen.clone(),
        });
    }

    fn is_mut_open(flags: c_int) -> bool {
        let acc = flags & libc::O_ACCMODE;
        acc != libc::O_RDONLY || flags & (libc::O_CREAT | libc::O_TRUNC | libc::O_APPEND) != 0
    }

    // ---- open -----------------------------------------------------------------------------
    pub fn pre_open(&mut self, rel: &str, flags: c_int) -> Verdict {
        if flags & libc::O_TMPFILE == libc::O_TMPFILE {
            self.unmodelled("open(O_TMPFILE)");
        }
        if flags & libc::O_DIRECTORY != 0 {
            return Verdict::Pass;
        }
        if Self::is_mut_open(flags) {
            self.pre_mut(Call::OpenWrite, rel)
        } else {
            Verdict::Pass
        }
    }
    pub fn post_open(&mut self, rel: &str, flags: c_int, fd: c_int, err: c_int) {
        if flags & libc::O_DIRECTORY != 0 {
            if fd >= 0 {
                self.fds.remove(&fd); // a stale association with this number, if any
            }
            return; // opendir: directories are not tracked as fds
        }
        let mutating = Self::is_mut_open(flags);
        let mut ev = self.ev(if mutating { Call::OpenWrite } else { Call::OpenRead }, rel, mutating);
        ev.err = err;
        ev.len = flags as u64 & (libc::O_CREAT | libc::O_TRUNC | libc::O_APPEND | libc::O_EXCL | libc::O_ACCMODE) as u64;
        if err != 0 && self.fired_at.as_ref().is_some_and(|f| f.0 + 1 == self.fallible_seen) && mutating {
            ev.fault = "err";
        }
        if fd >= 0 {
            let ino = match self.disk.files.get(rel) {
                Some(&i) => {
                    if flags & libc::O_TRUNC != 0 && (flags & libc::O_ACCMODE) != libc::O_RDONLY {
                        let n = &mut self.disk.inodes[i];
                        if !n.cache.is_empty() {
                            n.cache = Arc::new(Vec::new());
                        }
                        n.durable = Arc::new(Vec::new());
                        n.dirty = false;
                    }
                    i
                }
                None => {
                    if flags & libc::O_CREAT == 0 {
                        self.unmodelled(&format!("open of {rel} succeeded but the model has no such file"));
                    }
                    let empty = Arc::new(Vec::new());
                    self.disk.inodes.push(FileNode {
                        cache: empty.clone(),
                        durable: empty,
                        dirty: false,
                        ever_cas: false,
                    });
                    let i = self.disk.inodes.len() - 1;
                    self.disk.files.insert(rel.to_string(), i);
                    i
                }
            };
            let writable = (flags & libc::O_ACCMODE) != libc::O_RDONLY;
            self.fds.insert(fd, FdInfo { ino, rel: rel.to_string(), writable });
        }
        self.record(ev);
    }

    pub fn post_close(&mut self, fd: c_int) {
        if let Some(info) = self.fds.remove(&fd) {
            let ev = self.ev(Call::Close, &info.rel, false);
            self.record(ev);
        }
    }

    // ---- write / read ---------------------------------------------------------------------
    pub fn pre_write(&mut self, fd: c_int, n: usize) -> Verdict {
        let rel = self.fds.get(&fd).map(|f| f.rel.clone()).unwrap_or_default();
        if let Verdict::Fail(e) = self.pre_mut(Call::Write, &rel) {
            return Verdict::Fail(e);
        }
        if self.plan.eintr_pm > 0 && self.frng.below(1000) < self.plan.eintr_pm as u64 {
            self.counts.eintr += 1;
            return Verdict::Fail(libc::EINTR);
        }
        if n > 1 && self.plan.short_write_pm > 0 && self.frng.below(1000) < self.plan.short_write_pm as u64 {
            self.counts.short_writes += 1;
            return Verdict::Short(1 + self.frng.below(n as u64 - 1) as usize);
        }
        Verdict::Pass
    }
    pub fn post_write(&mut self, fd: c_int, data: &[u8], res: i64, end: i64, err: c_int) {
        let Some(info) = self.fds.get(&fd) else { return };
        let (ino, rel) = (info.ino, info.rel.clone());
        let mut ev = self.ev(Call::Write, &rel, true);
        ev.err = err;
        if err == libc::EINTR {
            ev.fault = "eintr";
        } else if err != 0 {
            ev.fault = "err";
        }
        if res > 0 {
            let n = res as usize;
            let start = (end as usize).saturating_sub(n);
            ev.len = n as u64;
            ev.off = start as u64;
            let node = &mut self.disk.inodes[ino];
            let cache = Arc::make_mut(&mut node.cache);
            if cache.len() < start + n {
                cache.resize(start + n, 0);
            }
            cache[start..start + n].copy_from_slice(data);
            node.dirty = true;
        }
        self.record(ev);
    }
    pub fn pre_read(&mut self, _fd: c_int, n: usize, allow_eintr: bool) -> Verdict {
        if allow_eintr && self.plan.eintr_pm > 0 && self.frng.below(1000) < self.plan.eintr_pm as u64 / 2 {
            // only plain read(): callers of pread64 are not required to retry (see DESIGN §2.3)
            self.counts.eintr += 1;
            return Verdict::Fail(libc::EINTR);
        }
        if n > 1 && self.plan.short_read_pm > 0 && self.frng.below(1000) < self.plan.short_read_pm as u64 {
            self.counts.short_reads += 1;
            return Verdict::Short(1 + self.frng.below(n as u64 - 1) as usize);
        }
        Verdict::Pass
    }
    pub fn post_read(&mut self, fd: c_int, res: i64) {
        let Some(info) = self.fds.get(&fd) else { return };
        let rel = info.rel.clone();
        let mut ev = self.ev(Call::Read, &rel, false);
        ev.len = res.max(0) as u64;
        self.record(ev);
    }

    // ---- sync -----------------------------------------------------------------------------
    pub fn pre_sync(&mut self, fd: c_int) -> Verdict {
        let rel = self.fds.get(&fd).map(|f| f.rel.clone()).unwrap_or_default();
        self.pre_mut(Call::Sync, &rel)
    }
    pub fn post_sync(&mut self, fd: c_int, ok: bool) {
        let Some(info) = self.fds.get(&fd) else { return };
        let (ino, rel) = (info.ino, info.rel.clone());
        let mut ev = self.ev(Call::Sync, &rel, true);
        if ok {
            let node = &mut self.disk.inodes[ino];
            node.durable = node.cache.clone();
            node.dirty = false;
        } else {
            ev.err = libc::EIO;
            ev.fault = "err";
        }
        self.record(ev);
    }

    // ---- rename / unlink / mkdir ----------------------------------------------------------
    pub fn pre_rename(&mut self, from: &str, _to: &str) -> Verdict {
        self.pre_mut(Call::Rename, from)
    }
    pub fn post_rename(&mut self, from: &str, to: &str, err: c_int) {
        let mut ev = self.ev(Call::Rename, from, true);
        ev.path2 = to.to_string();
        ev.err = err;
        if err == 0 {
            if let Some(i) = self.disk.files.remove(from) {
                if to.starts_with("db/cas/") {
                    self.disk.inodes[i].ever_cas = true;
                }
                self.disk.files.insert(to.to_string(), i);
                for f in self.fds.values_mut() {
                    if f.ino == i {
                        f.rel = to.to_string();
                    }
                }
            } else if self.disk.dirs.contains(from) {
                self.unmodelled("rename of a directory");
            } else {
                self.unmodelled(&format!("rename of {from} succeeded but the model has no such file"));
            }
        } else if self.fired_at.as_ref().is_some_and(|f| f.0 + 1 == self.fallible_seen) {
            ev.fault = "err";
        }
        self.record(ev);
    }
    pub fn pre_unlink(&mut self, rel: &str) -> Verdict {
        self.pre_mut(Call::Unlink, rel)
    }
    pub fn post_unlink(&mut self, rel: &str, err: c_int) {
        let mut ev = self.ev(Call::Unlink, rel, true);
        ev.err = err;
        if err == 0 {
            if self.disk.files.remove(rel).is_none() {
                self.unmodelled(&format!("unlink of {rel} succeeded but the model has no such file"));
            }
        } else if self.fired_at.as_ref().is_some_and(|f| f.0 + 1 == self.fallible_seen) {
            ev.fault = "err";
        }
        self.record(ev);
    }
    pub fn pre_mkdir(&mut self, rel: &str) -> Verdict {
        // mkdir of an existing directory is how create_dir_all probes: not a fault site, and not a
        // crash boundary of interest, but it is numbered like any other call for simplicity.
        if self.disk.dirs.contains(rel) || rel.is_empty() {
            return Verdict::Pass;
        }
        self.pre_mut(Call::Mkdir, rel)
    }
    pub fn post_mkdir(&mut self, rel: &str, err: c_int) {
        if rel.is_empty() {
            return;
        }
        let existed = self.disk.dirs.contains(rel);
        let mut ev = self.ev(Call::Mkdir, rel, !existed);
        ev.err = err;
        if err == 0 {
            self.disk.dirs.insert(rel.to_string());
        } else if !existed && self.fired_at.as_ref().is_some_and(|f| f.0 + 1 == self.fallible_seen) {
            ev.fault = "err";
        }
        self.record(ev);
    }

    /// rmdir of a directory under the root (the crate itself never removes directories; modelled so
    /// that a change which starts to do so is judged by the oracles instead of ending as a harness error)
    pub fn pre_rmdir(&mut self, rel: &str) -> Verdict {
        self.pre_mut(Call::Rmdir, rel)
    }
    pub fn post_rmdir(&mut self, rel: &str, err: c_int) {
        let mut ev = self.ev(Call::Rmdir, rel, true);
        ev.err = err;
        if err == 0 {
            if !self.disk.dirs.remove(rel) {
                self.unmodelled(&format!("rmdir of {rel} succeeded but the model has no such directory"));
            }
        } else if self.fired_at.as_ref().is_some_and(|f| f.0 + 1 == self.fallible_seen) {
            ev.fault = "err";
        }
        self.record(ev);
    }

    pub fn post_flock(&mut self, fd: c_int, op: c_int, ok: bool) {
        let Some(info) = self.fds.get(&fd) else { return };
        let rel = info.rel.clone();
        let mut ev = self.ev(Call::Flock, &rel, false);
        ev.len = op as u64;
        ev.err = if ok { 0 } else { libc::EWOULDBLOCK };
        self.record(ev);
    }

    pub fn pre_truncate(&mut self, fd: c_int) -> Verdict {
        let rel = self.fds.get(&fd).map(|f| f.rel.clone()).unwrap_or_default();
        self.pre_mut(Call::Truncate, &rel)
    }
    pub fn post_truncate(&mut self, fd: c_int, len: u64, err: c_int) {
        let Some(info) = self.fds.get(&fd) else { return };
        let (ino, rel) = (info.ino, info.rel.clone());
        let mut ev = self.ev(Call::Truncate, &rel, true);
        ev.len = len;
        ev.err = err;
        if err == 0 {
            let node = &mut self.disk.inodes[ino];
            Arc::make_mut(&mut node.cache).resize(len as usize, 0);
            node.dirty = true;
        } else {
            ev.fault = "err";
        }
        self.record(ev);
    }

    // ---- harness helpers ------------------------------------------------------------------
    pub fn begin_op(&mut self, op: u32) {
        self.cur_op = op;
        self.op_fallible.push((op, self.fallible_seen, self.fallible_seen));
    }
    pub fn end_op(&mut self) {
        if let Some(last) = self.op_fallible.last_mut() {
            last.2 = self.fallible_seen;
        }
    }
    pub fn writable_fds(&self) -> usize {
        self.fds.values().filter(|f| f.writable).count()
    }
    pub fn open_fd_paths(&self) -> Vec<String> {
        let mut v: Vec<String> = self.fds.values().map(|f| f.rel.clone()).collect();
        v.sort();
        v
    }
    pub fn log_digest(&self) -> String {
        self.log_hash.finalize().to_hex().to_string()
    }
}

/// CASIM_TRACE=1 prints the canonical event log to stderr (debugging aid; never affects a run)
pub fn trace_enabled() -> bool {
    static ON: std::sync::OnceLock<bool> = std::sync::OnceLock::new();
    *ON.get_or_init(|| std::env::var("CASIM_TRACE").is_ok())
}
