//! C11, separate-process part (sequential build): real child processes of the harness binary race
//! for the directory lock. Deterministic by construction of the pipe handshakes, not by a controlled
//! scheduler (and reported as such in the evidence).

use std::io::{BufRead, BufReader, Write};
use std::process::{Child, Command, Stdio};

use cassadilia::{Cas, LibError};

use crate::case::{Case, Outcome};
use crate::exec::{disk_image, fail, to_config, Failure};
use crate::interpose;
use crate::rng::Rng;
use crate::seqrun::{fresh_dir, remove_dir};
use crate::sim::Disk;

/// child: `casim-seq holder <db dir> <n> <wait-go:0|1> <put:0|1>`
pub fn cmd_holder(args: &[String]) -> i32 {
    let dir = std::path::PathBuf::from(&args[0]);
    let n: u64 = args[1].parse().unwrap_or(3);
    let wait_go = args.get(2).map(String::as_str) == Some("1");
    let do_put = args.get(3).map(String::as_str) == Some("1");
    let stdin = std::io::stdin();
    let mut line = String::new();
    if wait_go {
        let _ = stdin.lock().read_line(&mut line);
        line.clear();
    }
    let cfg = crate::gen::Cfg { n, async_mode: false, scan: true, verify: false, fail_on_integrity: true, pre_create: false };
    match Cas::<String>::open(&dir, to_config(&cfg)) {
        Ok(cas) => {
            if do_put {
                let r = cas.put("from-child".to_string()).and_then(|mut tx| {
                    tx.write(b"child data").map_err(|e| LibError::Io { operation: cassadilia::LibIoOperation::WriteStagingFile, path: None, source: std::io::Error::other(e.to_string()) })?;
                    tx.finish()
                });
                if let Err(e) = r {
                    println!("PUTFAILED {e}");
                }
            }
            println!("OPENED");
            let _ = std::io::stdout().flush();
            // hold the handle until told to exit (or until killed)
            let _ = stdin.lock().read_line(&mut line);
            drop(cas);
            0
        }
        Err(LibError::AlreadyOpened) => {
            println!("FAILED AlreadyOpened");
            let _ = std::io::stdout().flush();
            let _ = stdin.lock().read_line(&mut line);
            0
        }
        Err(e) => {
            println!("FAILED other: {e}");
            let _ = std::io::stdout().flush();
            1
        }
    }
}

struct Holder {
    child: Child,
    out: BufReader<std::process::ChildStdout>,
}

fn spawn_holder(dir: &std::path::Path, n: u64, wait_go: bool, put: bool) -> Holder {
    let exe = std::env::current_exe().expect("exe");
    let mut child = Command::new(exe)
        .arg("holder")
        .arg(dir)
        .arg(n.to_string())
        .arg(if wait_go { "1" } else { "0" })
        .arg(if put { "1" } else { "0" })
        .stdin(Stdio::piped())
        .stdout(Stdio::piped())
        .stderr(Stdio::null())
        .spawn()
        .expect("spawn holder");
    let out = BufReader::new(child.stdout.take().unwrap());
    Holder { child, out }
}

impl Holder {
    fn line(&mut self) -> String {
        let mut s = String::new();
        let _ = self.out.read_line(&mut s);
        s.trim().to_string()
    }
    fn tell(&mut self, msg: &str) {
        if let Some(i) = self.child.stdin.as_mut() {
            let _ = writeln!(i, "{msg}");
            let _ = i.flush();
        }
    }
    fn finish(mut self, kill: bool) {
        if kill {
            let _ = self.child.kill();
        } else {
            self.tell("exit");
        }
        let _ = self.child.wait();
    }
}

pub fn run_procs(case: &Case, pseed: u64) -> Outcome {
    let mut out = Outcome::default();
    out.counters.runs = 1;
    let mut rng = Rng::new(pseed);
    let n = case.workload.cfg.n;
    let cfg = crate::gen::Cfg { n, async_mode: false, scan: true, verify: false, fail_on_integrity: true, pre_create: false };
    let base = fresh_dir();
    let db = base.join("db");
    let r: Result<(), Failure> = (|| {
        let vio = |class: &str, msg: String| fail(&["C11"], class, 0, msg);
        // 1. a child owns the directory (optionally writes one key)
        let put = rng.chance(1, 2);
        let mut a = spawn_holder(&db, n, false, put);
        let l = a.line();
        if l != "OPENED" {
            a.finish(true);
            return Err(vio("first-open-failed", format!("the first process could not open a fresh directory: {l}")));
        }
        // 2. the parent's open must fail and leave every file untouched
        let before = interpose::bypass(|| Disk::from_dir(&base)).map(|d| disk_image(&d)).map_err(|e| vio("harness", e.to_string()))?;
        let attempts = 1 + rng.below(3);
        for _ in 0..attempts {
            match Cas::<String>::open(&db, to_config(&cfg)) {
                Err(LibError::AlreadyOpened) => {}
                Ok(c) => {
                    drop(c);
                    a.finish(true);
                    return Err(vio("two-live-handles", "a second process opened the directory while the first still holds it".into()));
                }
                Err(e) => {
                    a.finish(true);
                    return Err(vio("wrong-error", format!("losing open failed with {e} instead of AlreadyOpened")));
                }
            }
        }
        let after = interpose::bypass(|| Disk::from_dir(&base)).map(|d| disk_image(&d)).map_err(|e| vio("harness", e.to_string()))?;
        if before != after {
            let changed: Vec<&String> = after.iter().filter(|(k, v)| before.get(*k) != Some(v)).map(|(k, _)| k).chain(before.keys().filter(|k| !after.contains_key(*k))).collect();
            a.finish(true);
            return Err(vio("loser-modified-files", format!("a losing open modified database files: {changed:?}")));
        }
        // 3. the owner exits normally or is killed
        let kill = rng.chance(1, 2);
        *out.site_counts.entry(if kill { "owner-killed".into() } else { "owner-exited".into() }).or_insert(0) += 1;
        a.finish(kill);
        // 4. now the open succeeds and sees the owner's acknowledged write
        match Cas::<String>::open(&db, to_config(&cfg)) {
            Ok(c) => {
                if put {
                    match c.get(&"from-child".to_string()) {
                        Ok(Some(b)) if b.as_ref() == b"child data" => {}
                        other => {
                            return Err(fail(&["C11", "C03"], "data-lost", 0, format!("after the owner {} the key it wrote reads {:?}", if kill { "was killed" } else { "exited" }, other.map(|o| o.map(|b| b.len())).map_err(|e| e.to_string()))));
                        }
                    }
                }
                drop(c);
            }
            Err(e) => return Err(vio("reopen-after-exit-failed", format!("open after the owner {} failed: {e}", if kill { "was killed" } else { "exited" }))),
        }
        // 5. two processes released at the same moment: exactly one wins
        let mut b = spawn_holder(&db, n, true, false);
        let mut c = spawn_holder(&db, n, true, false);
        if rng.chance(1, 2) {
            b.tell("go");
            c.tell("go");
        } else {
            c.tell("go");
            b.tell("go");
        }
        let (lb, lc) = (b.line(), c.line());
        let wins = [&lb, &lc].iter().filter(|l| l.as_str() == "OPENED").count();
        let ok_losers = [&lb, &lc].iter().filter(|l| l.as_str() == "FAILED AlreadyOpened").count();
        b.finish(false);
        c.finish(false);
        if wins != 1 || ok_losers != 1 {
            return Err(vio("race-outcome", format!("two processes racing for one directory reported {lb:?} and {lc:?}; expected exactly one OPENED and one AlreadyOpened")));
        }
        *out.site_counts.entry("process-races".into()).or_insert(0) += 1;
        // 6. ownership ends with the handle, in either sync mode: an owner in Async mode (which runs a
        // background fdatasync thread) writes a few blobs and is dropped; the very next open - no
        // pause, no retry - must succeed (seeded change C11-e: the thread kept a dup of the lock)
        for round in 0..3 {
            let async_mode = round != 1;
            let mut acfg = cfg.clone();
            acfg.async_mode = async_mode;
            let owner = Cas::<String>::open(&db, to_config(&acfg)).map_err(|e| vio("reopen-after-drop-failed", format!("round {round}: opening a directory nobody holds failed: {e}")))?;
            for j in 0..4 {
                let mut tx = owner.put(format!("bulk-{round}-{j}")).map_err(|e| vio("harness", format!("put failed: {e}")))?;
                tx.write(&vec![j as u8; 200_000]).map_err(|e| vio("harness", format!("write failed: {e}")))?;
                tx.finish().map_err(|e| vio("harness", format!("finish failed: {e}")))?;
            }
            match Cas::<String>::open(&db, to_config(&cfg)) {
                Err(LibError::AlreadyOpened) => {}
                Ok(_) => return Err(vio("two-live-handles", "a second handle was opened in the same process while the first is alive".into())),
                Err(e) => return Err(vio("wrong-error", format!("losing open failed with {e} instead of AlreadyOpened"))),
            }
            drop(owner);
            match Cas::<String>::open(&db, to_config(&cfg)) {
                Ok(c) => drop(c),
                Err(e) => return Err(vio("reopen-after-drop-failed", format!("round {round}: the owner (async_mode={async_mode}) was dropped, yet the next open failed: {e}"))),
            }
            *out.site_counts.entry(if async_mode { "drop-then-open:async-owner".into() } else { "drop-then-open:sync-owner".into() }).or_insert(0) += 1;
        }
        Ok(())
    })();
    remove_dir(&base);
    out.fingerprints.push(pseed % 8);
    if let Err(f) = r {
        if f.class == "harness" {
            out.harness_error = Some(f.message);
        } else {
            out.violation = Some(f);
        }
    }
    out
}
