use crate::case::{Case, Outcome};

pub fn run_procs(_case: &Case, _pseed: u64) -> Outcome {
    let mut out = Outcome::default();
    out.harness_error = Some("mode not implemented".into());
    out
}
