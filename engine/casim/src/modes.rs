//! Fault-injecting run modes of the sequential build: F-crash, F-power, F-cut/F-flip, F-err,
//! F-forge (DESIGN.md §2.3, §3).

use std::collections::{BTreeMap, BTreeSet};
use std::panic::{catch_unwind, AssertUnwindSafe};
use std::path::Path;

use crate::case::{Case, CutSel, Mode, Outcome};
use crate::decode;
use crate::exec::{fail, panic_msg, Failure, Observed, World};
use crate::gen::{Op, Workload};
use crate::interpose::{self, with_sim};
use crate::keys::SimKey;
use crate::rng::{mix, Rng};
use crate::seqrun::{finish_sim, fresh_dir, new_sim, remove_dir};
use crate::sim::{Disk, Sim, Snap};

pub const OPEN_OP: u32 = 1_000_000;
pub const CLOSE_OP: u32 = 1_000_001;

pub fn run_mode<K: SimKey>(case: &Case, mode: &Mode) -> Outcome {
    match mode {
        Mode::Plain => unreachable!(),
        Mode::Crash { cuts, depth, suffix_every, verify } => run_crash::<K>(case, cuts, *depth, *suffix_every, *verify, false),
        Mode::Power { cuts } => run_crash::<K>(case, cuts, 1, 0, true, true),
        Mode::LogDamage { budget, dseed } => crate::damage::run_log_damage::<K>(case, *budget, *dseed),
        Mode::Err { site, errno, suffix_seed, second_gap } => crate::errmode::run_err::<K>(case, site, *errno, *suffix_seed, *second_gap),
        Mode::Forge { fseed, budget } => crate::forge::run_forge::<K>(case, *fseed, *budget),
        Mode::Orphans { pseed } => crate::orphans::run_orphans::<K>(case, *pseed),
        Mode::Procs { pseed } => crate::procs::run_procs(case, *pseed),
        Mode::Conc(_) => {
            let mut out = Outcome::default();
            out.harness_error = Some("a concurrent case needs the conc build".into());
            out
        }
    }
}

/// The traced main run shared by the image-based modes: executes the history with all fault-free
/// oracles on, snapshots before every mutating call, and remembers the model before each op.
pub struct Traced<K: SimKey> {
    pub world: World<K>,
    pub snaps: Vec<Snap>,
    /// models[i] = model before op i; models[n] = final model
    pub models: Vec<BTreeMap<K, usize>>,
    pub failure: Option<Failure>,
    pub sim: Sim,
    pub base: std::path::PathBuf,
}

pub fn traced_run<K: SimKey>(case: &Case, out: &mut Outcome, snap: bool) -> Traced<K> {
    let base = fresh_dir();
    let mut sim = new_sim(&base, case, 1);
    sim.snap_all = snap;
    if let Mode::Crash { cuts: CutSel::Steps(steps), .. } | Mode::Power { cuts: CutSel::Steps(steps) } = &case.mode {
        // explicit cut list: do not keep an image of every other boundary
        sim.snap_steps = Some(steps.iter().copied().collect());
    }
    interpose::install(sim);
    let wl = &case.workload;
    let mut w = World::<K>::new(&base, wl);
    w.own = case.property.clone();
    if wl.cfg.n == 1 {
        w.probes.n_is_1 += 1;
    }
    if wl.cfg.async_mode {
        w.probes.async_mode += 1;
    }
    let mut models = Vec::new();
    let mut failure = None;
    with_sim(|s| s.begin_op(OPEN_OP));
    let r = w.open_checked(0);
    with_sim(|s| {
        s.end_op();
        let Sim { mon, disk, .. } = s;
        mon.ack(disk);
    });
    if let Err(f) = r {
        failure = Some(f);
    } else {
        for (i, op) in wl.ops.iter().enumerate() {
            models.push(w.model.clone());
            if let Err(f) = w.step_checked(i, op) {
                failure = Some(f);
                break;
            }
            if with_sim(|s| s.mon.fatal() || s.harness_error.is_some()) {
                break;
            }
            out.fingerprints.push(crate::seqrun::state_fp(&w));
        }
    }
    models.push(w.model.clone());
    w.readers.clear();
    with_sim(|s| {
        s.begin_op(CLOSE_OP);
        s.mon.allowed.clear();
    });
    w.close();
    with_sim(|s| {
        s.end_op();
        if snap {
            s.take_final_snapshot();
        }
    });
    let mut sim = interpose::uninstall().expect("sim");
    let snaps = std::mem::take(&mut sim.snaps);
    out.counters.runs = 1;
    out.counters.ops = w.probes.ops;
    out.probes = w.probes.clone();
    if out.foreign.is_none() {
        out.foreign = w.foreign.borrow_mut().take();
    }
    Traced { world: w, snaps, models, failure, sim, base }
}

fn select_cuts(snaps: &[Snap], sel: &CutSel, n_ops: usize) -> Vec<usize> {
    match sel {
        CutSel::Steps(steps) => snaps.iter().enumerate().filter(|(_, s)| steps.contains(&s.step)).map(|(i, _)| i).collect(),
        CutSel::All { max, sseed } => {
            if snaps.len() <= *max as usize {
                return (0..snaps.len()).collect();
            }
            // stratified: every boundary of the last three operations + a random sample
            let mut pick: BTreeSet<usize> = BTreeSet::new();
            let last_ops = n_ops.saturating_sub(3) as u32;
            for (i, s) in snaps.iter().enumerate() {
                if (s.op != OPEN_OP && s.op >= last_ops && s.op < OPEN_OP) || s.op == CLOSE_OP {
                    pick.insert(i);
                }
            }
            let mut rng = Rng::new(*sseed);
            let mut guard = 0;
            while pick.len() < *max as usize && guard < 10 * *max {
                pick.insert(rng.below(snaps.len() as u64) as usize);
                guard += 1;
            }
            pick.into_iter().take(*max as usize).collect()
        }
    }
}

/// the two models an image cut while `op` was in flight may legitimately show
fn allowed_models<K: SimKey>(t: &Traced<K>, op: u32) -> Vec<BTreeMap<K, usize>> {
    let n = t.models.len() - 1;
    if op == OPEN_OP {
        return vec![t.models[0].clone()];
    }
    if op == CLOSE_OP || op as usize >= n {
        return vec![t.models[n].clone()];
    }
    let a = t.models[op as usize].clone();
    let b = t.models[op as usize + 1].clone();
    if a == b { vec![a] } else { vec![a, b] }
}

pub struct Judged<K: SimKey> {
    pub world: World<K>,
    pub sim: Sim,
    pub base: std::path::PathBuf,
    pub chosen: usize,
}

/// Materialise `disk` (with loss set), recover it with the real code, compare with the allowed
/// models. On success returns the recovered world (still open) for follow-ups.
#[allow(clippy::too_many_arguments)]
pub fn judge_image<K: SimKey>(
    wl: &Workload,
    disk: &Disk,
    lose: &BTreeSet<String>,
    versions_seen: &BTreeMap<u64, [u8; 32]>,
    allowed: &[BTreeMap<K, usize>],
    verify: bool,
    tag: &str,
    props: &[&str],
    snap_recovery: bool,
    own: &str,
) -> Result<Judged<K>, Failure> {
    let base = fresh_dir();
    disk.materialise(&base, lose).expect("materialise image");
    let mut sim = Sim::new(&base, 7);
    sim.disk = Disk::from_dir(&base).expect("read image back");
    sim.mon.cas_immutable = true;
    sim.mon.wal_wellformed = true;
    sim.mon.no_dangling = false; // a crash image may hold records whose blobs recovery reports as missing; judged below
    sim.mon.n = wl.cfg.n;
    sim.mon.versions_seen = versions_seen.clone();
    sim.mon.own = own.to_string();
    sim.snap_all = snap_recovery;
    interpose::install(sim);
    let mut w = World::<K>::new(&base, wl);
    w.cfg.scan = true;
    w.cfg.verify = verify;
    w.cfg.fail_on_integrity = false;
    w.keep_stats = true;
    w.exact_files = false;
    // allowed logged states for the C20 monitor during recovery
    let allowed_logged: Vec<_> = allowed.iter().map(|m| w.logged_of(m)).collect();
    with_sim(|s| {
        s.begin_op(OPEN_OP);
        s.mon.allowed = allowed_logged;
    });
    let cfg = w.cfg.clone();
    let finish = |w: &mut World<K>, f: Failure| -> Failure {
        // a failure of another property's oracle must not hide what the own monitor saw during the
        // recovery (C20: what recovery writes back must decode to an allowed state)
        let mv = with_sim(|s| {
            let own = s.mon.own.clone();
            if f.props.iter().any(|p| *p == own) {
                None
            } else {
                s.mon.take_own()
            }
        });
        w.close();
        let _ = interpose::uninstall();
        remove_dir(&base);
        match mv {
            Some(v) => Failure { props: vec![v.property.clone()], class: format!("{}:{}", v.monitor, v.class), op_index: 0, message: format!("{tag}: during recovery, step {}: {}", v.step, v.message) },
            None => f,
        }
    };
    let r = catch_unwind(AssertUnwindSafe(|| w.open_raw(&cfg)));
    match r {
        Err(p) => {
            let f = fail(props, "recovery-panicked", 0, format!("{tag}: open_with_recover panicked: {}", panic_msg(p)));
            return Err(finish(&mut w, f));
        }
        Ok(Err(e)) => {
            let f = fail(props, "recovery-failed", 0, format!("{tag}: open_with_recover failed: {e} ({e:?})"));
            return Err(finish(&mut w, f));
        }
        Ok(Ok(())) => {}
    }
    let obs = match w.observe_items() {
        Ok(o) => o,
        Err(e) => {
            let f = fail(props, "recovered-state-unreadable", 0, format!("{tag}: {e}"));
            return Err(finish(&mut w, f));
        }
    };
    let mut chosen = None;
    for (i, m) in allowed.iter().enumerate() {
        w.model = m.clone();
        if w.expected_observed().items == obs {
            chosen = Some(i);
            break;
        }
    }
    let Some(chosen) = chosen else {
        let want: Vec<_> = allowed
            .iter()
            .map(|m| {
                w.model = m.clone();
                crate::exec::brief_items(&w.expected_observed().items)
            })
            .collect();
        let f = fail(props, "recovered-state", 0, format!("{tag}: recovered keys {:?} match none of the allowed states {:?}", crate::exec::brief_items(&obs), want));
        return Err(finish(&mut w, f));
    };
    w.model = allowed[chosen].clone();
    // full observable state incl. bytes, refcounts, stats (C03 + C12)
    match w.observe() {
        Ok(o) => {
            let exp = w.expected_observed();
            if o != exp {
                let p2: Vec<&str> = if o.items == exp.items && o.bytes_hash == exp.bytes_hash { vec!["C12"] } else { props.to_vec() };
                let f = fail(&p2, "recovered-observation", 0, format!("{tag}: after recovery: {}\nexpected: {}", crate::exec::brief_obs(&o), crate::exec::brief_obs(&exp)));
                return Err(finish(&mut w, f));
            }
        }
        Err(e) => {
            let f = fail(props, "recovered-blob-unreadable", 0, format!("{tag}: {e}"));
            return Err(finish(&mut w, f));
        }
    }
    // the scan must be exact (C08) and report no missing / corrupted blob (C03)
    if let Some(scan) = w.last_scan.clone() {
        let exp = expected_scan(&w, verify);
        if !scan.missing.is_empty() || !scan.corrupted.is_empty() {
            let f = fail(props, "recovered-missing-or-corrupted", 0, format!("{tag}: recovery reports missing={} corrupted={} blobs", scan.missing.len(), scan.corrupted.len()));
            return Err(finish(&mut w, f));
        }
        if scan != exp {
            let f = fail(&["C08"], "scan-inexact", 0, format!("{tag}: scan = {scan:?}\nexpected {exp:?}"));
            return Err(finish(&mut w, f));
        }
    }
    let mv = with_sim(|s| s.mon.take_own());
    if let Some(v) = mv {
        let f = Failure { props: vec![v.property.clone()], class: format!("{}:{}", v.monitor, v.class), op_index: 0, message: format!("{tag}: during recovery, step {}: {}", v.step, v.message) };
        return Err(finish(&mut w, f));
    }
    let sim = interpose::uninstall().expect("sim");
    Ok(Judged { world: w, sim, base, chosen })
}

/// the checker's own comparison of the directory listing with the model (C08 oracle)
pub fn expected_scan<K: SimKey>(w: &World<K>, verify: bool) -> crate::exec::ScanView {
    let blobs = w.expected_blobs();
    with_sim(|s| {
        let mut v = crate::exec::ScanView::default();
        let mut seen: BTreeSet<[u8; 32]> = BTreeSet::new();
        for (p, node) in s.disk.list("db/cas/") {
            let rel = &p["db/cas/".len()..];
            let depth = rel.matches('/').count();
            let lenient = parse_like_store(rel);
            match (depth, lenient) {
                (2, Some(h)) => {
                    seen.insert(h);
                    match blobs.get(&h) {
                        None => {
                            v.orphaned.insert(h);
                        }
                        Some((_, size)) => {
                            if verify && (node.cache.len() as u64 != *size || blake3::hash(&node.cache).as_bytes() != &h) {
                                v.corrupted.insert(h);
                            }
                        }
                    }
                }
                _ => {
                    v.invalid.insert(p.clone());
                }
            }
        }
        for h in blobs.keys() {
            if !seen.contains(h) {
                v.missing.insert(*h);
            }
        }
        for (p, _) in s.disk.list("db/staging/") {
            if p["db/staging/".len()..].matches('/').count() == 0 {
                v.staging.insert(p.clone());
            }
        }
        v.total_blobs = seen.len();
        v
    })
}

/// A file at depth 3 under cas/ is a blob iff its three components concatenate to 64 hex digits
/// (this is the store's documented layout; upper-case digits and uneven splits are judged by the
/// C08 planting mode, not here: crash images only ever contain names the store produced).
fn parse_like_store(rel: &str) -> Option<[u8; 32]> {
    decode::parse_cas_rel_path(rel)
}

fn run_crash<K: SimKey>(case: &Case, cuts: &CutSel, depth: u32, suffix_every: u32, verify: bool, power: bool) -> Outcome {
    let mut out = Outcome::default();
    let mut t = traced_run::<K>(case, &mut out, true);
    let props: &[&str] = if power {
        &["C09"]
    } else if case.property == "C19" {
        &["C03", "C19"]
    } else {
        &["C03"]
    };
    if let Some(f) = t.failure.take() {
        out.violation = Some(f);
    }
    let mut sim = std::mem::replace(&mut t.sim, Sim::new(Path::new("/nonexistent"), 0));
    finish_sim(&mut out, &mut sim, &t.base, true);
    remove_dir(&t.base);
    if out.violation.is_some() || out.harness_error.is_some() {
        return out;
    }
    let wl = &case.workload;
    let picks = select_cuts(&t.snaps, cuts, wl.ops.len());
    if picks.len() == t.snaps.len() {
        out.counters.exhaustive_cases += 1;
    } else {
        out.counters.sampled_cases += 1;
    }
    let mut rng = Rng::new(mix(wl.content_seed, 0xc7a5));
    let mut judged = 0u32;
    'cuts: for &si in &picks {
        let snap = &t.snaps[si];
        let allowed = allowed_models(&t, snap.op);
        let step_s = if snap.step == u64::MAX { "final".to_string() } else { snap.step.to_string() };
        let opname = if snap.op == OPEN_OP { "open".to_string() } else if snap.op == CLOSE_OP { "close".to_string() } else { format!("op#{} {}", snap.op, wl.ops.get(snap.op as usize).map_or("?".into(), |o| o.short())) };
        // loss sets
        let loss_sets: Vec<BTreeSet<String>> = if power {
            let dirty = snap.disk.dirty_files();
            let d = dirty.len();
            let mut sets = Vec::new();
            if d <= 4 {
                for mask in 0..(1u32 << d) {
                    sets.push(dirty.iter().enumerate().filter(|(i, _)| mask & (1 << i) != 0).map(|(_, p)| p.clone()).collect());
                }
            } else {
                sets.push(BTreeSet::new());
                sets.push(dirty.iter().cloned().collect());
                for p in &dirty {
                    sets.push([p.clone()].into_iter().collect());
                }
                for _ in 0..8 {
                    sets.push(dirty.iter().filter(|_| rng.chance(1, 2)).cloned().collect());
                }
            }
            sets
        } else {
            vec![BTreeSet::new()]
        };
        for lose in &loss_sets {
            let tag = format!("cut={step_s} before {} {} during {opname}{}", snap.call.name(), snap.role, if power { format!(" lost={lose:?}") } else { String::new() });
            if power {
                out.counters.power_images += 1;
            } else {
                out.counters.crash_images += 1;
            }
            judged += 1;
            let nested = depth > 1;
            let j = match judge_image::<K>(wl, &snap.disk, lose, &snap.versions_seen, &allowed, verify, &tag, props, nested, &case.property) {
                Ok(j) => j,
                Err(mut f) => {
                    f.op_index = if (snap.op as usize) < wl.ops.len() { snap.op as usize } else { wl.ops.len().saturating_sub(1) };
                    out.violation = Some(f);
                    break 'cuts;
                }
            };
            out.fingerprints.push(mix(mix(si as u64, j.chosen as u64), crate::rng::mix_str(lose.len() as u64, &format!("{}{}{:?}", snap.call.name(), snap.role, allowed[j.chosen].len()))));
            let Judged { mut world, mut sim, base, .. } = j;
            let rec_snaps = std::mem::take(&mut sim.snaps);
            let rec_versions = sim.mon.versions_seen.clone();
            // usability of the recovered store (C03 second sentence)
            let mut f2: Option<Failure> = None;
            if suffix_every > 0 && judged % suffix_every == 0 {
                out.counters.usability_suffixes += 1;
                interpose::install(sim);
                f2 = usability_suffix(&mut world, &mut rng, &tag, &case.property).err();
                world.readers.clear();
                world.close();
                sim = interpose::uninstall().expect("sim");
                if f2.is_none() {
                    if let Some(v) = sim.mon.take_own() {
                        f2 = Some(Failure { props: vec![v.property], class: format!("{}:{}", v.monitor, v.class), op_index: 0, message: format!("{tag}: after recovery, step {}: {}", v.step, v.message) });
                    }
                }
            } else {
                interpose::install(sim);
                world.close();
                sim = interpose::uninstall().expect("sim");
            }
            if let Some(e) = sim.harness_error.take() {
                out.harness_error = Some(e);
            }
            out.counters.mutating_calls += sim.step;
            out.counters.events += sim.events;
            remove_dir(&base);
            if let Some(mut f) = f2 {
                f.op_index = if (snap.op as usize) < wl.ops.len() { snap.op as usize } else { wl.ops.len().saturating_sub(1) };
                out.violation = Some(f);
                break 'cuts;
            }
            // nested crash: cut the recovery's own trace again
            if nested && !rec_snaps.is_empty() {
                for rs in &rec_snaps {
                    out.counters.nested_images += 1;
                    let tag2 = format!("{tag}; then cut2={} before {} {} during recovery", rs.step, rs.call.name(), rs.role);
                    match judge_image::<K>(wl, &rs.disk, &BTreeSet::new(), &rec_versions, &allowed, verify, &tag2, props, false, &case.property) {
                        Ok(j2) => {
                            let Judged { mut world, sim, base, .. } = j2;
                            interpose::install(sim);
                            world.close();
                            let _ = interpose::uninstall();
                            remove_dir(&base);
                        }
                        Err(mut f) => {
                            f.class = format!("nested-{}", f.class);
                            f.op_index = if (snap.op as usize) < wl.ops.len() { snap.op as usize } else { wl.ops.len().saturating_sub(1) };
                            out.violation = Some(f);
                            break 'cuts;
                        }
                    }
                }
            }
        }
    }
    out
}

/// after a recovery: clean up orphans, then a few operations, a checkpoint, a clean reopen, all
/// under the fault-free oracles (the model has adopted the recovered state)
fn usability_suffix<K: SimKey>(w: &mut World<K>, rng: &mut Rng, tag: &str, own: &str) -> Result<(), Failure> {
    let wrap = |mut f: Failure| {
        f.message = format!("{tag}: recovered store not usable: {}", f.message);
        if !f.props.iter().any(|p| p == "C03") {
            f.props.push("C03".into());
        }
        // C19 runs this mode for "the remembered pre-creation choice does not change behaviour
        // observably" (a crash inside first-time initialisation included)
        if own == "C19" && !f.props.iter().any(|p| p == "C19") {
            f.props.push("C19".into());
        }
        f
    };
    // C08 -> C07: after delete_orphans on an image without missing/corrupted blobs the exact-file-set oracle holds again
    if let Some(st) = w.stats.take() {
        let r = interpose::enter(|| st.delete_orphans());
        interpose::enter(|| drop(st));
        match r {
            Ok(res) if res.errors.is_empty() => {}
            Ok(res) => return Err(wrap(fail(&["C08"], "cleanup-errors", 0, format!("delete_orphans reported errors: {:?}", res.errors)))),
            Err(e) => return Err(wrap(fail(&["C08"], "cleanup-failed", 0, format!("delete_orphans failed: {e}")))),
        }
        w.exact_files = true;
        w.check_files(0).map_err(|mut f| {
            f.props = vec!["C08".into(), "C07".into()];
            wrap(f)
        })?;
    }
    w.set_monitor_expectations = true;
    let nk = w.keys.len();
    let nc = w.contents.len();
    let n = 2 + rng.below(4) as usize;
    for i in 0..n {
        let op = match rng.below(6) {
            0 | 1 => Op::Put { k: rng.below(nk as u64) as usize, c: rng.below(nc as u64) as usize, chunks: vec![], abort: false },
            2 => Op::Remove { k: rng.below(nk as u64) as usize },
            3 => Op::Checkpoint,
            4 => Op::Reopen,
            _ => Op::Audit,
        };
        let op = match op {
            Op::Put { k, c, .. } => Op::Put { k, c, chunks: vec![w.contents[c].len()], abort: false },
            o => o,
        };
        w.step_checked(10_000 + i, &op).map_err(wrap)?;
    }
    w.step_checked(10_100, &Op::Checkpoint).map_err(wrap)?;
    w.reopen(10_101).map_err(wrap)?;
    w.audit(10_102).map_err(wrap)
}

impl<K: SimKey> World<K> {
    /// keys + items only (no blob reads)
    pub fn observe_items(&self) -> Result<Vec<(Vec<u8>, [u8; 32], u64)>, String> {
        let cas = self.cas();
        interpose::enter(|| {
            let g = cas.read_index_state();
            Ok(g.iter().map(|(k, it)| (k.kb(), it.blob_hash.0, it.blob_size)).collect())
        })
    }
}

pub fn observed_eq_model<K: SimKey>(w: &World<K>, o: &Observed) -> bool {
    *o == w.expected_observed()
}
