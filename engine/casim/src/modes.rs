//! Fault-injecting run modes of the sequential build.

use crate::case::{Case, Mode, Outcome};
use crate::keys::SimKey;

pub fn run_mode<K: SimKey>(_case: &Case, mode: &Mode) -> Outcome {
    let mut out = Outcome::default();
    out.harness_error = Some(format!("mode not implemented: {mode:?}"));
    out
}
