use crate::case::{Case, Outcome, SiteSel};
use crate::keys::SimKey;

pub fn run_err<K: SimKey>(_case: &Case, _site: &SiteSel, _errno: i32, _suffix_seed: u64) -> Outcome {
    let mut out = Outcome::default();
    out.harness_error = Some("mode not implemented".into());
    out
}
