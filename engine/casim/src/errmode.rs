//! C14: F-err — exactly one mutating filesystem call fails (no side effect); the damage must be
//! confined to the operation that hit it. Oracle: per-key {old,new} uncertainty for the failed
//! operation only; everything else exact; later operations and a clean reopen must succeed.

use std::collections::BTreeSet;
use std::ops::Bound;
use std::panic::{catch_unwind, AssertUnwindSafe};

use crate::case::{Case, Outcome, SiteSel};
use crate::decode;
use crate::exec::{fail, panic_msg, Failure, World};
use crate::gen::{Op, B};
use crate::interpose::{self, with_sim};
use crate::keys::SimKey;
use crate::modes::{traced_run, OPEN_OP};
use crate::rng::{mix, Rng};
use crate::seqrun::{finish_sim, fresh_dir, remove_dir};
use crate::sim::Sim;

type Poss = Vec<BTreeSet<Option<usize>>>;

enum Raw<T> {
    Ok(T),
    Err(String),
    Panic(String),
}

fn guarded<T>(f: impl FnOnce() -> Result<T, String>) -> Raw<T> {
    match catch_unwind(AssertUnwindSafe(|| interpose::enter(f))) {
        Ok(Ok(v)) => Raw::Ok(v),
        Ok(Err(e)) => Raw::Err(e),
        Err(p) => Raw::Panic(panic_msg(p)),
    }
}

fn bound<K: Clone>(keys: &[K], b: B) -> Bound<K> {
    match b {
        B::U => Bound::Unbounded,
        B::I(i) => Bound::Included(keys[i].clone()),
        B::E(i) => Bound::Excluded(keys[i].clone()),
    }
}

fn in_range(lo: B, hi: B, k: usize) -> bool {
    (match lo {
        B::U => true,
        B::I(a) => k >= a,
        B::E(a) => k > a,
    }) && (match hi {
        B::U => true,
        B::I(b) => k <= b,
        B::E(b) => k < b,
    })
}

fn raw_put<K: SimKey>(w: &World<K>, k: usize, c: usize, chunks: &[usize], abort: bool) -> Raw<()> {
    let cas = w.cas.as_ref().unwrap();
    let key = w.keys[k].clone();
    let data = w.contents[c].clone();
    guarded(|| {
        let mut tx = cas.put(key).map_err(|e| format!("put(): {e}"))?;
        let mut off = 0;
        for &n in chunks {
            tx.write(&data[off..off + n]).map_err(|e| format!("write(): {e}"))?;
            off += n;
        }
        if abort {
            drop(tx);
            Ok(())
        } else {
            tx.finish().map_err(|e| format!("finish(): {e} ({e:?})"))
        }
    })
}

pub fn run_err<K: SimKey>(case: &Case, site: &SiteSel, errno: i32, suffix_seed: u64, second_gap: Option<u64>) -> Outcome {
    let mut out = Outcome::default();
    // ---- dry run: count the fallible mutating calls per operation --------------------------------
    let mut t = traced_run::<K>(case, &mut out, false);
    if let Some(f) = t.failure.take() {
        out.violation = Some(f);
    }
    let mut sim = std::mem::replace(&mut t.sim, Sim::new(std::path::Path::new("/nonexistent"), 0));
    let op_ranges = sim.op_fallible.clone();
    finish_sim(&mut out, &mut sim, &t.base, true);
    remove_dir(&t.base);
    if out.violation.is_some() || out.harness_error.is_some() {
        return out;
    }
    let wl = &case.workload;
    // candidate sites: every fallible mutating call issued by the first open or by an operation
    let mut all_sites: Vec<u64> = Vec::new();
    for (op, a, b) in &op_ranges {
        if *op == OPEN_OP || (*op as usize) < wl.ops.len() {
            all_sites.extend(*a..*b);
        }
    }
    all_sites.sort();
    all_sites.dedup();
    let sites: Vec<u64> = match site {
        SiteSel::Sites(s) => s.clone(),
        SiteSel::All { max, sseed } => {
            if all_sites.len() <= *max as usize {
                out.counters.exhaustive_cases += 1;
                all_sites.clone()
            } else {
                out.counters.sampled_cases += 1;
                let mut rng = Rng::new(*sseed);
                let mut pick: BTreeSet<u64> = BTreeSet::new();
                // always every call of the last two operations (roll-over / checkpoint paths are short)
                if let Some((_, a, b)) = op_ranges.iter().rev().find(|(op, _, _)| (*op as usize) < wl.ops.len()) {
                    pick.extend(*a..*b);
                }
                while pick.len() < *max as usize {
                    pick.insert(*rng.pick(&all_sites));
                }
                pick.into_iter().collect()
            }
        }
    };
    for k in sites {
        out.counters.err_sites += 1;
        if let Some(f) = one_site::<K>(case, k, errno, mix(suffix_seed, k), second_gap, &op_ranges, &mut out) {
            out.violation = Some(f);
            break;
        }
        if out.harness_error.is_some() {
            break;
        }
    }
    out
}

fn one_site<K: SimKey>(case: &Case, site: u64, errno: i32, sseed: u64, second_gap: Option<u64>, op_ranges: &[(u32, u64, u64)], out: &mut Outcome) -> Option<Failure> {
    let wl = &case.workload;
    let base = fresh_dir();
    let mut sim = Sim::new(&base, 11);
    sim.mon.cas_immutable = true;
    // the on-disk well-formedness rules that do not depend on knowing the acknowledged state
    // (complete records, version order / ranges / no reuse across restarts, snapshot monotone)
    // keep holding after a failed call; a violation is C20's (foreign to a C14 run, own in C20's
    // fault-injecting run class)
    sim.mon.wal_wellformed = true;
    sim.mon.tolerate_torn_tail = true;
    sim.mon.own = case.property.clone();
    sim.mon.n = wl.cfg.n;
    sim.plan.fail_at = Some(site);
    // EMFILE only makes sense for calls that allocate a descriptor; otherwise use EIO
    sim.plan.fail_errno = errno;
    // an optional second failing call, in a later operation (armed once the faulted operation has
    // returned, disarmed before the final clean restarts): two failed operations in a row on the
    // same segment writer / staging directory / snapshot path
    sim.plan.second_gap = second_gap;
    interpose::install(sim);
    let mut w = World::<K>::new(&base, wl);
    w.set_monitor_expectations = false;
    let nk = w.keys.len();
    let tag = match second_gap {
        Some(g) => format!("site={site} errno={errno} second=+{g}"),
        None => format!("site={site} errno={errno}"),
    };
    let arm = || with_sim(|s| if s.fired_at.is_some() { s.second_armed = true });
    let faulted_op = op_ranges.iter().find(|(_, a, b)| site >= *a && site < *b).map(|(op, _, _)| *op).unwrap_or(OPEN_OP);
    let mut result: Option<Failure> = None;
    let mut poss: Poss = vec![[None].into_iter().collect(); nk];
    let cfg = w.cfg.clone();

    // helper closures -----------------------------------------------------------------------------
    let fired = || with_sim(|s| s.fired_at.clone());
    let vio = |class: &str, i: usize, msg: String| Some(fail(&["C14"], class, i, format!("{tag}: {msg}")));

    'run: {
        // ---- first open (may be the faulted operation) -----------------------------------------
        with_sim(|s| s.begin_op(OPEN_OP));
        let r = catch_unwind(AssertUnwindSafe(|| w.open_raw(&cfg)));
        with_sim(|s| s.end_op());
        match r {
            Err(p) => {
                result = vio("panic", 0, format!("open panicked: {}", panic_msg(p)));
                break 'run;
            }
            Ok(Err(e)) => {
                if fired().is_none() {
                    result = Some(fail(&["C02"], "open-failed", 0, format!("{tag}: first open failed without a fault: {e}")));
                    break 'run;
                }
                // the failed open is the confined operation: the next one must succeed
                let r2 = catch_unwind(AssertUnwindSafe(|| w.open_raw(&cfg)));
                match r2 {
                    Ok(Ok(())) => {}
                    Ok(Err(e2)) => {
                        result = vio("reopen-failed", 0, format!("open failed because of the injected error ({e}) and the next open fails too: {e2} ({e2:?}); fault at {:?}", fired()));
                        break 'run;
                    }
                    Err(p) => {
                        result = vio("panic", 0, format!("open after a failed open panicked: {}", panic_msg(p)));
                        break 'run;
                    }
                }
            }
            Ok(Ok(())) => {}
        }
        w.exact_files = fired().is_none();
        arm();
        // ---- the history -----------------------------------------------------------------------
        for (i, op) in wl.ops.iter().enumerate() {
            let is_faulted = faulted_op as usize == i && fired().is_none();
            if !is_faulted && fired().is_none() {
                // before the fault: exact oracles
                if let Err(f) = w.step_checked(i, op) {
                    // an oracle of another property tripped without any fault: not ours to report
                    result = Some(f);
                    break 'run;
                }
                for (ki, k) in w.keys.iter().enumerate() {
                    poss[ki] = [w.model.get(k).copied()].into_iter().collect();
                }
                continue;
            }
            with_sim(|s| s.begin_op(i as u32));
            let r = tolerant_op(&mut w, op, &mut poss, i, is_faulted, &tag);
            with_sim(|s| s.end_op());
            if fired().is_some() {
                w.exact_files = false;
            }
            arm();
            if let Err(f) = r {
                result = Some(f);
                break 'run;
            }
        }
        if fired().is_none() {
            // the site was not reached (possible when an earlier reopen changed the call count): nothing to judge
            break 'run;
        }
        // ---- 2-6 further operations ------------------------------------------------------------
        let mut rng = Rng::new(sseed);
        let n_more = 2 + rng.below(5) as usize;
        let nc = w.contents.len();
        for j in 0..n_more {
            let k = rng.below(nk as u64) as usize;
            // an explicit checkpoint directly after the failed call (its target is whatever version
            // the failed operation consumed) is the interesting neighbour: bias towards it
            let first_ckpt = j == 0 && rng.chance(1, 3);
            let op = match if first_ckpt { 5 } else { rng.below(8) } {
                0..=2 => {
                    let c = rng.below(nc as u64) as usize;
                    Op::Put { k, c, chunks: vec![w.contents[c].len()], abort: false }
                }
                3 => Op::Remove { k },
                4 => Op::Get { k },
                5 => Op::Checkpoint,
                6 => {
                    let (lo, hi) = crate::gen::gen_bound_pair(&mut rng, nk);
                    Op::RemoveRange { lo, hi }
                }
                _ => Op::Get { k },
            };
            if let Err(f) = tolerant_op(&mut w, &op, &mut poss, wl.ops.len() + j, false, &tag) {
                result = Some(f);
                break 'run;
            }
        }
        // ---- clean reopen, which must succeed --------------------------------------------------
        with_sim(|s| s.second_armed = false);
        w.readers.clear();
        w.close();
        let r = catch_unwind(AssertUnwindSafe(|| w.open_raw(&cfg)));
        match r {
            Err(p) => {
                result = vio("panic", wl.ops.len(), format!("reopen panicked: {}", panic_msg(p)));
                break 'run;
            }
            Ok(Err(e)) => {
                result = vio("reopen-failed", wl.ops.len(), format!("after the failed call at {:?} and further successful operations, a clean reopen fails: {e} ({e:?})", fired()));
                break 'run;
            }
            Ok(Ok(())) => {}
        }
        if let Err(f) = tolerant_audit(&w, &poss, wl.ops.len(), &tag) {
            result = Some(f);
            break 'run;
        }
        // ---- and the store stays usable --------------------------------------------------------
        for j in 0..2 {
            let k = rng.below(nk as u64) as usize;
            let c = rng.below(nc as u64) as usize;
            let op = if j == 0 { Op::Put { k, c, chunks: vec![w.contents[c].len()], abort: false } } else { Op::Remove { k } };
            if let Err(f) = tolerant_op(&mut w, &op, &mut poss, wl.ops.len() + 10 + j, false, &tag) {
                result = Some(f);
                break 'run;
            }
        }
        if let Err(f) = tolerant_audit(&w, &poss, wl.ops.len() + 12, &tag) {
            result = Some(f);
            break 'run;
        }
        // ---- operations issued after the first restart are themselves preserved by a second one ----
        w.readers.clear();
        w.close();
        match catch_unwind(AssertUnwindSafe(|| w.open_raw(&cfg))) {
            Err(p) => {
                result = vio("panic", wl.ops.len() + 13, format!("second reopen panicked: {}", panic_msg(p)));
                break 'run;
            }
            Ok(Err(e)) => {
                result = vio("reopen-failed", wl.ops.len() + 13, format!("the second clean reopen after the failed call at {:?} fails: {e} ({e:?})", fired()));
                break 'run;
            }
            Ok(Ok(())) => {}
        }
        if let Err(mut f) = tolerant_audit(&w, &poss, wl.ops.len() + 14, &tag) {
            f.message = format!("{} (after the second restart)", f.message);
            result = Some(f);
        }
    }
    w.readers.clear();
    w.close();
    let mut sim = interpose::uninstall().expect("sim");
    if let Some((_, call, rel)) = &sim.fired_at {
        out.fingerprints.push(crate::rng::mix_str(faulted_op as u64, &format!("{}:{}", call.name(), crate::sim::role_of(rel))));
        *out.site_counts.entry(format!("fault:{}:{}", call.name(), crate::sim::role_of(rel))).or_insert(0) += 1;
    }
    if let Some((_, call, rel)) = &sim.second_fired {
        *out.site_counts.entry(format!("fault2:{}:{}", call.name(), crate::sim::role_of(rel))).or_insert(0) += 1;
    }
    out.faults.err_fired += sim.counts.err_fired;
    out.counters.mutating_calls += sim.step;
    out.counters.events += sim.events;
    if let Some(e) = sim.harness_error.take() {
        out.harness_error = Some(e);
    } else if let Err(e) = sim.disk.fidelity(&base) {
        out.harness_error = Some(format!("fidelity check failed (SimDisk != tmpfs): {e}"));
    }
    if result.is_none() {
        if let Some(v) = sim.mon.take_own().or_else(|| sim.mon.take_foreign()) {
            result = Some(Failure { props: vec![v.property], class: format!("{}:{}", v.monitor, v.class), op_index: 0, message: format!("{tag}: step {}: {}", v.step, v.message) });
        }
    }
    remove_dir(&base);
    result
}

/// execute `op` after (or as) the faulted operation; update the possibility sets
fn tolerant_op<K: SimKey>(w: &mut World<K>, op: &Op, poss: &mut Poss, i: usize, faulted: bool, tag: &str) -> Result<(), Failure> {
    let what = if faulted { "the faulted operation" } else { "a later operation" };
    // an operation is "faulted" when it is the one the first fault was planned for, or when the
    // (optional) second fault fired while it ran
    let fired0 = with_sim(|s| s.counts.err_fired);
    let faulted = move || faulted || with_sim(|s| s.counts.err_fired) > fired0;
    let vio = |class: &str, msg: String| fail(&["C14"], class, i, format!("{tag}: {} ({what}): {msg}", op.short()));
    match op {
        Op::Put { k, c, chunks, abort } => match raw_put(w, *k, *c, chunks, *abort) {
            Raw::Ok(()) => {
                if !*abort {
                    poss[*k] = [Some(*c)].into_iter().collect();
                }
                Ok(())
            }
            Raw::Err(e) => {
                if !faulted() {
                    return Err(vio("later-op-failed", format!("failed although the injected error hit an earlier operation: {e}")));
                }
                if !*abort {
                    poss[*k].insert(Some(*c));
                }
                Ok(())
            }
            Raw::Panic(p) => Err(vio("panic", format!("panicked: {p}"))),
        },
        Op::Remove { k } => {
            let cas = w.cas.as_ref().unwrap();
            let key = w.keys[*k].clone();
            match guarded(|| cas.remove(&key).map_err(|e| format!("{e} ({e:?})"))) {
                Raw::Ok(b) => {
                    if !poss[*k].iter().any(|v| v.is_some() == b) {
                        return Err(vio("wrong-result", format!("remove returned {b} but the key's possible values are {:?}", poss[*k])));
                    }
                    // remove(k) == true logged a record after anything the failed operation may have
                    // left behind, so the key is certainly absent from now on. remove(k) == false saw
                    // the key absent and wrote nothing: the property still allows the failed
                    // operation's new value to show up later (e.g. after reopening), so the
                    // uncertainty of a key of the failed operation is kept as it is.
                    if b {
                        poss[*k] = [None].into_iter().collect();
                    }
                    Ok(())
                }
                Raw::Err(e) => {
                    if !faulted() {
                        return Err(vio("later-op-failed", format!("failed although the injected error hit an earlier operation: {e}")));
                    }
                    poss[*k].insert(None);
                    Ok(())
                }
                Raw::Panic(p) => Err(vio("panic", format!("panicked: {p}"))),
            }
        }
        Op::RemoveRange { lo, hi } => {
            let cas = w.cas.as_ref().unwrap();
            let r = (bound(&w.keys, *lo), bound(&w.keys, *hi));
            let idx: Vec<usize> = (0..w.keys.len()).filter(|k| in_range(*lo, *hi, *k)).collect();
            let min: usize = idx.iter().filter(|k| !poss[**k].contains(&None)).count();
            let max: usize = idx.iter().filter(|k| poss[**k].iter().any(|v| v.is_some())).count();
            match guarded(|| cas.remove_range(r).map_err(|e| format!("{e} ({e:?})"))) {
                Raw::Ok(n) => {
                    if n < min || n > max {
                        return Err(vio("wrong-result", format!("remove_range returned {n}, possible [{min},{max}]")));
                    }
                    // keys that were certainly present were removed with a logged record; for keys
                    // of the failed operation we cannot tell whether this call saw them, so their
                    // uncertainty is only widened by "absent", never collapsed (see Remove above)
                    for k in idx {
                        if poss[k].len() == 1 {
                            poss[k] = [None].into_iter().collect();
                        } else {
                            poss[k].insert(None);
                        }
                    }
                    Ok(())
                }
                Raw::Err(e) => {
                    if !faulted() {
                        return Err(vio("later-op-failed", format!("failed although the injected error hit an earlier operation: {e}")));
                    }
                    for k in idx {
                        poss[k].insert(None);
                    }
                    Ok(())
                }
                Raw::Panic(p) => Err(vio("panic", format!("panicked: {p}"))),
            }
        }
        Op::Get { k } | Op::GetSize { k } | Op::GetRange { k, .. } | Op::OpenReader { k } => {
            let cas = w.cas.as_ref().unwrap();
            let key = w.keys[*k].clone();
            match guarded(|| cas.get(&key).map_err(|e| format!("{e}"))) {
                Raw::Ok(v) => {
                    let got = v.as_ref().map(|b| w.contents.iter().position(|c| c.as_slice() == b.as_ref()));
                    let ok = match got {
                        None => poss[*k].contains(&None),
                        Some(Some(c)) => poss[*k].iter().any(|p| p.is_some_and(|x| w.hashes[x] == w.hashes[c])),
                        Some(None) => false,
                    };
                    if !ok {
                        return Err(vio("wrong-value", format!("get returned {:?} bytes; possible values of the key: {:?}", v.map(|b| b.len()), poss[*k])));
                    }
                    Ok(())
                }
                Raw::Err(e) => Err(vio("unreadable", format!("a key's value cannot be read after the fault: {e}"))),
                Raw::Panic(p) => Err(vio("panic", format!("panicked: {p}"))),
            }
        }
        Op::Checkpoint => {
            let cas = w.cas.as_ref().unwrap();
            match guarded(|| cas.checkpoint().map_err(|e| format!("{e} ({e:?})"))) {
                Raw::Ok(()) => Ok(()),
                Raw::Err(e) => {
                    if faulted() {
                        Ok(())
                    } else {
                        Err(vio("later-op-failed", format!("checkpoint failed although the injected error hit an earlier operation: {e}")))
                    }
                }
                Raw::Panic(p) => Err(vio("panic", format!("panicked: {p}"))),
            }
        }
        Op::Reopen | Op::ReopenFlipPreCreate | Op::ReopenWrongN { .. } | Op::ReopenWrongVersion { .. } => {
            w.readers.clear();
            w.close();
            let cfg = w.cfg.clone();
            let r = catch_unwind(AssertUnwindSafe(|| w.open_raw(&cfg)));
            match r {
                Err(p) => Err(vio("panic", format!("open panicked: {}", panic_msg(p)))),
                Ok(Ok(())) => Ok(()),
                Ok(Err(e)) => {
                    if !faulted() {
                        return Err(vio("reopen-failed", format!("a clean reopen after the fault fails: {e} ({e:?})")));
                    }
                    // the faulted open is the confined operation; the next open must succeed
                    let r2 = catch_unwind(AssertUnwindSafe(|| w.open_raw(&cfg)));
                    match r2 {
                        Ok(Ok(())) => Ok(()),
                        Ok(Err(e2)) => Err(vio("reopen-failed", format!("open failed because of the injected error ({e}); the next open fails too: {e2} ({e2:?})"))),
                        Err(p) => Err(vio("panic", format!("open panicked: {}", panic_msg(p)))),
                    }
                }
            }
        }
        // never generated for fault-injection workloads (w_put_around is 0 there)
        Op::PutAround { .. } => Ok(()),
        Op::DrainReaders | Op::Range { .. } | Op::Audit => Ok(()),
    }
}

/// every key holds a possible value and is readable; refcounts/stats consistent with what is shown
fn tolerant_audit<K: SimKey>(w: &World<K>, poss: &Poss, i: usize, tag: &str) -> Result<(), Failure> {
    let vio = |class: &str, msg: String| fail(&["C14"], class, i, format!("{tag}: audit after the fault: {msg}"));
    let obs = w.observe().map_err(|e| vio("unreadable", e))?;
    let mut shown: Vec<Option<usize>> = vec![None; w.keys.len()];
    for ((kb, h, sz), bh) in obs.items.iter().zip(obs.bytes_hash.iter()) {
        let Some(ki) = w.keys.iter().position(|k| k.kb() == *kb) else {
            return Err(vio("unknown-key", format!("iter() shows a key that was never written: {}", hex::encode(kb))));
        };
        let Some(c) = w.hashes.iter().position(|x| x == h) else {
            return Err(vio("wrong-value", format!("key {ki} maps to a hash that is no content of this run")));
        };
        if *sz != w.contents[c].len() as u64 || *bh != Some(*h) {
            return Err(vio("wrong-value", format!("key {ki}: recorded size or read bytes do not match its hash")));
        }
        shown[ki] = Some(c);
    }
    for (ki, v) in shown.iter().enumerate() {
        let ok = match v {
            None => poss[ki].contains(&None),
            Some(c) => poss[ki].iter().any(|p| p.is_some_and(|x| w.hashes[x] == w.hashes[*c])),
        };
        if !ok {
            return Err(vio("wrong-value", format!("key {ki} shows {v:?}, possible values {:?}", poss[ki])));
        }
    }
    // C12 relative to what is shown
    let mut expect: std::collections::BTreeMap<[u8; 32], u32> = Default::default();
    for c in shown.iter().flatten() {
        *expect.entry(w.hashes[*c]).or_insert(0) += 1;
    }
    let expect_v: Vec<([u8; 32], u32)> = expect.iter().map(|(h, c)| (*h, *c)).collect();
    if obs.known_blobs != expect_v {
        return Err(vio("refcounts", format!("known_blobs() {:?} inconsistent with the keys shown {:?}", crate::exec::brief_blobs(&obs.known_blobs), crate::exec::brief_blobs(&expect_v))));
    }
    // no referenced blob missing on disk
    let missing: Vec<String> = with_sim(|s| expect.keys().map(|h| format!("db/cas/{}", decode::cas_rel_path(h))).filter(|p| s.disk.file(p).is_none()).collect());
    if !missing.is_empty() {
        return Err(vio("missing-blob", format!("referenced blobs missing from cas/: {missing:?}")));
    }
    Ok(())
}
