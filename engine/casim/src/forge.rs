use crate::case::{Case, Outcome};
use crate::keys::SimKey;

pub fn run_forge<K: SimKey>(_case: &Case, _fseed: u64, _budget: u32) -> Outcome {
    let mut out = Outcome::default();
    out.harness_error = Some("mode not implemented".into());
    out
}
