//! C16 (storage-facing part): F-forge between two opens. Decoders must be total on arbitrary stored
//! bytes (Ok or Err, never a panic), canonical encodings of arbitrary entries must load exactly and
//! be written back identically, and decoding must not allocate more than its input.

use std::collections::BTreeSet;
use std::panic::{catch_unwind, AssertUnwindSafe};
use std::sync::Arc;

use crate::case::{Case, Outcome};
use crate::decode::{self, LogOp};
use crate::exec::{fail, panic_msg, Failure, World};
use crate::interpose;
use crate::keys::SimKey;
use crate::modes::traced_run;
use crate::monitors::parse_log;
use crate::rng::{mix, Rng};
use crate::seqrun::{finish_sim, fresh_dir, remove_dir};
use crate::sim::{Disk, FileNode, Sim};

fn set_file(d: &mut Disk, rel: &str, bytes: Vec<u8>) {
    let b = Arc::new(bytes);
    match d.files.get(rel) {
        Some(&i) => {
            d.inodes[i].cache = b.clone();
            d.inodes[i].durable = b;
        }
        None => {
            d.inodes.push(FileNode { cache: b.clone(), durable: b, dirty: false, ever_cas: false });
            let i = d.inodes.len() - 1;
            d.files.insert(rel.to_string(), i);
        }
    }
}

enum Expect {
    /// must load, and iter() must show exactly these entries (as a set)
    Exactly(Vec<(Vec<u8>, [u8; 32], u64)>),
    /// Ok or Err, no panic
    Total,
    /// as Total, with the start-up scan on (the blob-path decoder sees the planted names)
    TotalWithScan,
}

struct Verdict {
    opened: bool,
}

/// open `img` with the real code; never panic; optionally exact content; bounded allocation
fn judge<K: SimKey>(case: &Case, img: &Disk, expect: &Expect, desc: &str, alloc_input: Option<usize>, out: &mut Outcome) -> Result<Verdict, Failure> {
    let wl = &case.workload;
    out.counters.forged_opens += 1;
    let base = fresh_dir();
    img.materialise(&base, &BTreeSet::new()).expect("materialise");
    let mut sim = Sim::new(&base, 9);
    sim.disk = Disk::from_dir(&base).expect("image");
    interpose::install(sim);
    let mut w = World::<K>::new(&base, wl);
    w.cfg.scan = matches!(expect, Expect::TotalWithScan);
    w.cfg.fail_on_integrity = false;
    w.cfg.async_mode = false;
    let cfg = w.cfg.clone();
    crate::alloc::window_start();
    let r = catch_unwind(AssertUnwindSafe(|| w.open_raw(&cfg)));
    let max_alloc = crate::alloc::window_end();
    let mut res: Result<Verdict, Failure> = Ok(Verdict { opened: false });
    match r {
        Err(p) => res = Err(fail(&["C16"], "panic", 0, format!("{desc}: open panicked: {}", panic_msg(p)))),
        Ok(Err(e)) => {
            if let Expect::Exactly(_) = expect {
                res = Err(fail(&["C16"], "canonical-rejected", 0, format!("{desc}: a canonical encoding was rejected: {e} ({e:?})")));
            }
        }
        Ok(Ok(())) => {
            res = Ok(Verdict { opened: true });
            let items = catch_unwind(AssertUnwindSafe(|| w.observe_items()));
            match (items, expect) {
                (Err(p), _) => res = Err(fail(&["C16"], "panic", 0, format!("{desc}: iter() after open panicked: {}", panic_msg(p)))),
                (Ok(Ok(items)), Expect::Exactly(want)) => {
                    let mut a = items.clone();
                    a.sort();
                    let mut b = want.clone();
                    b.sort();
                    if a != b {
                        res = Err(fail(&["C16"], "round-trip", 0, format!("{desc}: decoded {} entries differ from the {} forged ones, e.g. got {:?}", a.len(), b.len(), crate::exec::brief_items(&a).iter().take(3).collect::<Vec<_>>())));
                    } else {
                        // write it back: an explicit checkpoint must reproduce the same entries and version
                        let before = interpose::with_sim(|s| s.disk.bytes("db/index").map(|b| b.to_vec()));
                        let cas = w.cas.as_ref().unwrap();
                        let c = catch_unwind(AssertUnwindSafe(|| interpose::enter(|| cas.checkpoint())));
                        match c {
                            Err(p) => res = Err(fail(&["C16"], "panic", 0, format!("{desc}: checkpoint panicked: {}", panic_msg(p)))),
                            Ok(Err(e)) => res = Err(fail(&["C16"], "re-encode-failed", 0, format!("{desc}: checkpoint failed: {e}"))),
                            Ok(Ok(())) => {
                                let after = interpose::with_sim(|s| s.disk.bytes("db/index").map(|b| b.to_vec()));
                                let same = match (&before, &after) {
                                    (Some(x), Some(y)) => match (decode::decode_snapshot(x), decode::decode_snapshot(y)) {
                                        (Ok(sx), Ok(sy)) => {
                                            let mut ex = sx.entries.clone();
                                            ex.sort();
                                            let mut ey = sy.entries.clone();
                                            ey.sort();
                                            sx.version == sy.version && ex == ey && x.len() == y.len()
                                        }
                                        _ => false,
                                    },
                                    _ => false,
                                };
                                if !same {
                                    res = Err(fail(&["C16"], "re-encode-differs", 0, format!("{desc}: snapshot written back by checkpoint does not decode to the same version/entries/length")));
                                }
                            }
                        }
                    }
                }
                (Ok(Err(e)), _) => res = Err(fail(&["C16"], "round-trip", 0, format!("{desc}: {e}"))),
                _ => {}
            }
        }
    }
    if res.is_ok() {
        if let Some(input) = alloc_input {
            let bound = 2 * input + (64 << 10);
            if max_alloc > bound {
                res = Err(fail(&["C16"], "allocation-bound", 0, format!("{desc}: a single allocation of {max_alloc} bytes while decoding {input} bytes of input")));
            }
        }
    }
    w.close();
    let _ = interpose::uninstall();
    remove_dir(&base);
    res
}

fn draw_entries<K: SimKey>(rng: &mut Rng, extreme: bool) -> Vec<(Vec<u8>, [u8; 32], u64)> {
    let n = match rng.below(5) {
        0 => 0,
        1 => 1,
        2 => 200,
        _ => rng.below(30) as usize,
    };
    let keys = crate::keys::gen_keys::<K>(rng, n, false);
    // extreme sizes only in snapshots that are not mutated afterwards: a flipped size bit next to a
    // 2^63 entry makes the *statistics* sum pass 2^64, which is arithmetic outside the decoders
    let big = if extreme { *rng.pick(&[1u64 << 63, u64::MAX]) } else { *rng.pick(&[(1u64 << 32) - 1, 1 << 32, 1 << 40]) };
    let mut v = Vec::new();
    let big_at = if keys.is_empty() { 0 } else { rng.below(keys.len() as u64) as usize };
    for (i, k) in keys.iter().enumerate() {
        let mut h = [0u8; 32];
        h.copy_from_slice(&rng.bytes(32));
        if rng.chance(1, 8) {
            h = [*rng.pick(&[0u8, 0xff]); 32];
        }
        // sizes: one boundary value per snapshot; the rest 0 when it is 2^64-1, so that the sum of
        // sizes (statistics, not decoding) stays below 2^64
        let size = if i == big_at { big } else if big == u64::MAX { 0 } else { *rng.pick(&[0u64, 1, 7, 1 << 20]) };
        v.push((k.kb(), h, size));
    }
    // distinct hashes get distinct sizes trivially; equal hashes must agree on size (content addressing)
    let mut seen: std::collections::BTreeMap<[u8; 32], u64> = Default::default();
    for e in v.iter_mut() {
        let s = *seen.entry(e.1).or_insert(e.2);
        e.2 = s;
    }
    v
}

pub fn run_forge<K: SimKey>(case: &Case, fseed: u64, budget: u32) -> Outcome {
    let mut out = Outcome::default();
    // a real history provides real files to forge from (settings, snapshot, segments)
    let mut t = traced_run::<K>(case, &mut out, false);
    if let Some(f) = t.failure.take() {
        out.violation = Some(f);
    }
    let mut sim = std::mem::replace(&mut t.sim, Sim::new(std::path::Path::new("/nonexistent"), 0));
    finish_sim(&mut out, &mut sim, &t.base, true);
    remove_dir(&t.base);
    if out.violation.is_some() || out.harness_error.is_some() {
        return out;
    }
    let real = sim.disk.clone();
    let wl = &case.workload;
    let mut rng = Rng::new(fseed);
    let mut left = budget as i64;
    let mut fail_with = |f: Failure, out: &mut Outcome| {
        let mut f = f;
        f.op_index = wl.ops.len().saturating_sub(1);
        out.violation = Some(f);
    };

    // an empty database skeleton (settings only) for forged snapshots
    let mut skeleton = Disk::default();
    for d in ["db", "db/cas", "db/staging"] {
        skeleton.dirs.insert(d.to_string());
    }
    if let Some(b) = real.bytes("db/db_settings.json") {
        set_file(&mut skeleton, "db/db_settings.json", b.to_vec());
    }

    // ---- (i) canonical snapshots of arbitrary entries -----------------------------------------
    for round in 0..3 {
        if left <= 0 {
            break;
        }
        left -= 1;
        let extreme = round == 0;
        let entries = draw_entries::<K>(&mut rng, extreme);
        let version = *rng.pick(&[1u64, 2, wl.cfg.n, wl.cfg.n + 1, 1000, 1 << 40]);
        let bytes = decode::encode_snapshot(version, &entries);
        let mut img = skeleton.clone();
        let len = bytes.len();
        set_file(&mut img, "db/index", bytes.clone());
        let desc = format!("canonical snapshot #{round}: version {version}, {} entries, {len} bytes", entries.len());
        if let Err(f) = judge::<K>(case, &img, &Expect::Exactly(entries.clone()), &desc, Some(len), &mut out) {
            fail_with(f, &mut out);
            return out;
        }
        out.fingerprints.push(mix(entries.len() as u64, version));
        // ---- (ii) mutations of this valid encoding -------------------------------------------
        // (the extreme-size snapshot is mutated as well: since the repair of F6 a size sum beyond
        // 2^64 saturates while loading instead of overflowing)
        let mut muts: Vec<(String, Vec<u8>)> = Vec::new();
        let step = (len / 40).max(1);
        for cut in (0..len).step_by(step) {
            muts.push((format!("truncated to {cut} of {len} bytes"), bytes[..cut].to_vec()));
        }
        for &n in &[0u32, 1, entries.len() as u32 + 1, entries.len().saturating_sub(1) as u32, 1 << 31, u32::MAX] {
            let mut b = bytes.clone();
            if b.len() >= 12 {
                b[8..12].copy_from_slice(&n.to_le_bytes());
                muts.push((format!("entry count replaced by {n}"), b));
            }
        }
        if !entries.is_empty() && bytes.len() >= 16 {
            for &kl in &[0u32, 1, len as u32 - 1, len as u32, len as u32 + 1, 1 << 31, u32::MAX] {
                let mut b = bytes.clone();
                b[12..16].copy_from_slice(&kl.to_le_bytes());
                muts.push((format!("first key length replaced by {kl}"), b));
            }
        }
        for _ in 0..10 {
            if bytes.is_empty() {
                break;
            }
            let mut b = bytes.clone();
            let pos = rng.below(b.len() as u64) as usize;
            b[pos] ^= 1 << rng.below(8);
            muts.push((format!("bit flipped at byte {pos}"), b));
        }
        {
            let mut b = bytes.clone();
            let extra = 1 + rng.below(9) as usize;
            b.extend_from_slice(&rng.bytes(extra));
            muts.push(("trailing garbage".into(), b));
        }
        // a key that is invalid for K (wrong width / bad UTF-8)
        {
            let bad_key: Vec<u8> = vec![0xff, 0xfe, 0xfd];
            let e2 = vec![(bad_key, [7u8; 32], 1u64)];
            muts.push(("one entry whose key bytes may be invalid for the key type".into(), decode::encode_snapshot(version, &e2)));
        }
        muts.push(("empty file".into(), Vec::new()));
        for (what, b) in muts {
            if left <= 0 {
                break;
            }
            left -= 1;
            let mut img = skeleton.clone();
            let l = b.len();
            set_file(&mut img, "db/index", b);
            if let Err(f) = judge::<K>(case, &img, &Expect::Total, &format!("mutated snapshot ({what})"), Some(l.max(len)), &mut out) {
                fail_with(f, &mut out);
                return out;
            }
        }
    }

    // ---- (iii) forged log records on the real image ---------------------------------------------
    let Ok(parsed) = parse_log(&real) else { return out };
    let n = wl.cfg.n;
    let next_version = parsed.max_version + 1;
    let seg_of = |v: u64| (v - 1) / n;
    let keys = crate::keys::keys_from_hex::<K>(&wl.keys_hex);
    let kb = |i: usize| keys[i % keys.len()].kb();
    let mut payloads: Vec<(String, Vec<u8>)> = Vec::new();
    payloads.push(("unknown tag 2".into(), vec![2, 0, 0, 0, 0]));
    payloads.push(("unknown tag 255".into(), vec![255]));
    payloads.push(("put with key length beyond the payload".into(), {
        let mut p = vec![0u8];
        p.extend_from_slice(&1000u32.to_le_bytes());
        p.extend_from_slice(&kb(0));
        p
    }));
    payloads.push(("put cut inside the hash".into(), {
        let mut p = decode::encode_op(&LogOp::Put { key: kb(0), hash: [9; 32], size: 3 });
        p.truncate(p.len() - 20);
        p
    }));
    payloads.push(("put with trailing bytes".into(), {
        let mut p = decode::encode_op(&LogOp::Put { key: kb(0), hash: [9; 32], size: 3 });
        p.extend_from_slice(&[1, 2, 3]);
        p
    }));
    payloads.push(("put with key bytes invalid for the key type".into(), decode::encode_op(&LogOp::Put { key: vec![0xff, 0xfe, 0xfd], hash: [9; 32], size: 3 })));
    payloads.push(("remove with zero keys".into(), decode::encode_op(&LogOp::Remove { keys: vec![] })));
    for &cnt in &[1u32 << 31, u32::MAX, 1 << 24, 3] {
        payloads.push((format!("remove announcing {cnt} keys with one present"), {
            let mut p = vec![1u8];
            p.extend_from_slice(&cnt.to_le_bytes());
            p.extend_from_slice(&(kb(1).len() as u32).to_le_bytes());
            p.extend_from_slice(&kb(1));
            p
        }));
    }
    payloads.push(("remove with a key length of 2^32-1".into(), {
        let mut p = vec![1u8];
        p.extend_from_slice(&1u32.to_le_bytes());
        p.extend_from_slice(&u32::MAX.to_le_bytes());
        p
    }));
    payloads.push(("remove of a key invalid for the key type".into(), decode::encode_op(&LogOp::Remove { keys: vec![vec![0xff, 0xfe, 0xfd]] })));
    payloads.push(("well-formed put of an unknown blob".into(), decode::encode_op(&LogOp::Put { key: kb(2), hash: [0xab; 32], size: 1 << 40 })));
    for (what, payload) in payloads {
        if left <= 0 {
            break;
        }
        left -= 1;
        let v = next_version;
        let seg = format!("db/{}_index.wal", seg_of(v));
        let mut img = real.clone();
        let mut b = img.bytes(&seg).map(|x| x.to_vec()).unwrap_or_default();
        // append after the last complete record (drop a trailing end marker if present)
        let segd = decode::decode_segment(&b);
        let end = segd.records.last().map_or(0, |r| r.end);
        b.truncate(end);
        b.extend_from_slice(&decode::encode_record(v, &payload));
        set_file(&mut img, &seg, b);
        // the open decodes the snapshot and every record of every segment (and re-encodes the state when
        // it checkpoints after the replay): the allocation bound is stated against all of that input,
        // not against the forged record alone (false alarm with VERIF_SEED=5: a genuine 66 KB key in v1)
        let input: usize = img.files.keys().filter(|p| *p == "db/index" || p.ends_with("_index.wal")).map(|p| img.bytes(p).map_or(0, |x| x.len())).sum::<usize>() + 4096;
        if let Err(f) = judge::<K>(case, &img, &Expect::Total, &format!("forged record v{v} with a valid checksum: {what}"), Some(input), &mut out) {
            fail_with(f, &mut out);
            return out;
        }
    }
    // frame-level forgeries: version and length fields, end marker in the middle (no allocation bound:
    // the length field itself is forged)
    let segs: Vec<(String, Vec<u8>)> = real.list("db/").into_iter().filter(|(p, _)| p.ends_with("_index.wal") && p.matches('/').count() == 1).map(|(p, n)| (p.clone(), (*n.cache).clone())).collect();
    for (path, bytes) in segs {
        let segd = decode::decode_segment(&bytes);
        for r in &segd.records {
            let mut frames: Vec<(String, Vec<u8>)> = Vec::new();
            for &ver in &[0u64, 1, r.version + 1, r.version.saturating_sub(1), u64::MAX, (seg_of(r.version) + 2) * n] {
                let mut b = bytes.clone();
                b[r.start..r.start + 8].copy_from_slice(&ver.to_le_bytes());
                frames.push((format!("version of record v{} replaced by {ver}", r.version), b));
            }
            for &l in &[0u32, 1, (r.end - r.start - 44) as u32 + 1, (r.end - r.start - 44) as u32 - 1, 1 << 20, 1 << 31, u32::MAX] {
                let mut b = bytes.clone();
                b[r.start + 40..r.start + 44].copy_from_slice(&l.to_le_bytes());
                frames.push((format!("length of record v{} replaced by {l}", r.version), b));
            }
            {
                let mut b = bytes.clone();
                for x in &mut b[r.start..r.start + 44] {
                    *x = 0;
                }
                frames.push((format!("header of record v{} zeroed (end marker in the middle)", r.version), b));
            }
            for (what, b) in frames {
                if left <= 0 {
                    break;
                }
                left -= 1;
                let mut img = real.clone();
                set_file(&mut img, &path, b);
                if let Err(f) = judge::<K>(case, &img, &Expect::Total, &format!("forged frame in {path}: {what}"), None, &mut out) {
                    fail_with(f, &mut out);
                    return out;
                }
            }
        }
    }
    // ---- (iv) blob-path decoder: stray names under cas/ seen by the start-up scan ----------------
    {
        let mut h = [0u8; 32];
        h.copy_from_slice(&rng.bytes(32));
        let hex: String = h.iter().map(|b| format!("{b:02x}")).collect();
        let names: Vec<String> = vec![
            format!("{}/{}/{}", &hex[0..3], &hex[3..4], &hex[4..]),   // 3/1/60
            format!("{}/{}/{}", &hex[0..1], &hex[1..4], &hex[4..]),   // 1/3/60
            format!("{}/{}/{}", &hex[0..4], &hex[4..6], &hex[6..]),   // 4/2/58
            format!("{}/{}/{}", &hex[0..2], &hex[2..3], &hex[3..]),   // 2/1/61
            format!("{}/{}/{}", &hex[0..2], &hex[2..4], hex[4..].to_uppercase()),
            format!("{}/{}/{}", &hex[0..2], &hex[2..4], &hex[4..63]),  // 63 digits
            format!("{}/{}/{}g", &hex[0..2], &hex[2..4], &hex[4..63]), // non-hex
            format!("{}/{}/{}", &hex[0..2], &hex[2..4], "é".repeat(30)), // multi-byte, 60 bytes
            format!("{}/{}/x", &hex[0..2], &hex[2..4]),
            format!("{}/x", &hex[0..2]),
            "x".to_string(),
        ];
        for name in names {
            // (a fixed, small set: not charged to the per-history budget)
            let mut img = real.clone();
            let rel = format!("db/cas/{name}");
            let parts: Vec<&str> = rel.split('/').collect();
            for i in 1..parts.len() {
                img.dirs.insert(parts[..i].join("/"));
            }
            set_file(&mut img, &rel, b"stray".to_vec());
            if let Err(f) = judge::<K>(case, &img, &Expect::TotalWithScan, &format!("stray file at cas/{name}"), None, &mut out) {
                fail_with(f, &mut out);
                return out;
            }
        }
    }
    // settings file forgeries
    for (what, b) in [
        ("settings: not JSON", b"{".to_vec()),
        ("settings: empty", Vec::new()),
        ("settings: num_ops_per_wal = 0", br#"{"version":4,"dir_tree_is_pre_created":false,"num_ops_per_wal":0}"#.to_vec()),
        ("settings: negative version", br#"{"version":-1,"dir_tree_is_pre_created":false,"num_ops_per_wal":3}"#.to_vec()),
        ("settings: huge num_ops_per_wal", br#"{"version":4,"dir_tree_is_pre_created":false,"num_ops_per_wal":18446744073709551616}"#.to_vec()),
        ("settings: missing field", br#"{"version":4}"#.to_vec()),
    ] {
        let _ = left;
        let mut img = real.clone();
        set_file(&mut img, "db/db_settings.json", b);
        if let Err(f) = judge::<K>(case, &img, &Expect::Total, what, None, &mut out) {
            fail_with(f, &mut out);
            return out;
        }
    }
    out
}
