//! Sequential build: executes one `Case` (one client thread, steps numbered by the interposer).

use std::path::{Path, PathBuf};
use std::sync::atomic::{AtomicU64, Ordering};

use crate::case::{Case, Mode, Outcome};
use crate::exec::{fail, Failure, World};
use crate::gen::Workload;
use crate::interpose;
use crate::keys::SimKey;
use crate::rng::mix;
use crate::sim::Sim;

static DIR_SEQ: AtomicU64 = AtomicU64::new(0);

pub fn scratch_root() -> PathBuf {
    let base = if Path::new("/dev/shm").is_dir() { PathBuf::from("/dev/shm") } else { std::env::temp_dir() };
    base.join(format!("casim.{}", std::process::id()))
}

/// fresh empty directory for one simulation root
pub fn fresh_dir() -> PathBuf {
    let _b = interpose::Bypass::new();
    let d = scratch_root().join(format!("r{}", DIR_SEQ.fetch_add(1, Ordering::Relaxed)));
    let _ = std::fs::remove_dir_all(&d);
    std::fs::create_dir_all(&d).expect("create scratch dir");
    d
}

pub fn remove_dir(d: &Path) {
    let _b = interpose::Bypass::new();
    let _ = std::fs::remove_dir_all(d);
}

pub fn cleanup_scratch() {
    remove_dir(&scratch_root());
}

pub fn new_sim(base: &Path, case: &Case, seed: u64) -> Sim {
    let mut sim = Sim::new(base, seed);
    sim.mon.cas_immutable = true;
    sim.mon.wal_wellformed = true;
    sim.mon.no_dangling = true;
    sim.mon.n = case.workload.cfg.n;
    sim.mon.own = case.property.clone();
    if let Some(n) = &case.noise {
        sim.plan.short_write_pm = n.short_write_pm;
        sim.plan.short_read_pm = n.short_read_pm;
        sim.plan.eintr_pm = n.eintr_pm;
        sim.frng = crate::rng::Rng::new(n.seed);
        // a short write is a boundary inside a record created by the fault, not by the store
        sim.mon.tolerate_torn_tail = n.short_write_pm > 0 || n.eintr_pm > 0;
    }
    sim
}

pub fn run_case(case: &Case) -> Outcome {
    crate::dispatch_key_type!(case.workload.key_type, run_case_k(case))
}

/// fold the simulation's counters and first monitor violation into the outcome
pub fn finish_sim(out: &mut Outcome, sim: &mut Sim, base: &Path, check_fidelity: bool) {
    out.counters.mutating_calls += sim.step;
    out.counters.events += sim.events;
    out.counters.monitor_evals += sim.mon.evaluations;
    out.counters.wal_parses += sim.mon.wal_parses;
    out.counters.max_record_len = out.counters.max_record_len.max(sim.mon.max_record_len as u64);
    out.probes.multi_key_remove += sim.mon.multi_key_removes.min(1);
    out.faults.err_fired += sim.counts.err_fired;
    out.faults.short_writes += sim.counts.short_writes;
    out.faults.short_reads += sim.counts.short_reads;
    out.faults.eintr += sim.counts.eintr;
    for (k, v) in &sim.site_counts {
        *out.site_counts.entry(k.clone()).or_insert(0) += v;
    }
    if out.log_digest.is_empty() {
        out.log_digest = sim.log_digest();
    } else {
        out.log_digest = format!("{:016x}", mix(crate::rng::mix_str(0, &out.log_digest), crate::rng::mix_str(1, &sim.log_digest())));
    }
    if out.harness_error.is_none() {
        out.harness_error = sim.harness_error.take();
    }
    let to_failure = |v: crate::monitors::MonViolation| Failure {
        props: vec![v.property.clone()],
        class: format!("{}:{}", v.monitor, v.class),
        op_index: if v.op >= crate::modes::OPEN_OP { 0 } else { v.op as usize },
        message: format!("step {}: {}", v.step, v.message),
    };
    if out.violation.is_none() {
        if let Some(v) = sim.mon.take_own() {
            out.violation = Some(to_failure(v));
        }
    }
    if out.foreign.is_none() {
        if let Some(v) = sim.mon.take_foreign() {
            out.foreign = Some(to_failure(v));
        }
    }
    if check_fidelity && out.harness_error.is_none() {
        if let Err(e) = sim.disk.fidelity(base) {
            out.harness_error = Some(format!("fidelity check failed (SimDisk != tmpfs): {e}"));
        }
    }
}

fn run_case_k<K: SimKey>(case: &Case) -> Outcome {
    match &case.mode {
        Mode::Plain => run_plain::<K>(case),
        #[allow(unreachable_patterns)]
        other => crate::modes::run_mode::<K>(case, other),
    }
}

/// run the workload's operations with the fault-free oracles; returns the world for follow-ups
pub fn drive<K: SimKey>(w: &mut World<K>, wl: &Workload, out: &mut Outcome) -> Result<(), Failure> {
    w.open_checked(0)?;
    w.check_index_size(0)?;
    for (i, op) in wl.ops.iter().enumerate() {
        w.step_checked(i, op)?;
        // a monitor violation ends the run at the operation boundary
        let mv = interpose::with_sim(|s| s.mon.fatal() || s.harness_error.is_some());
        if mv {
            return Ok(());
        }
        if i % 3 == 2 {
            w.audit(i)?;
        }
        out.fingerprints.push(state_fp(w));
    }
    // final: drain readers, full audit, clean restart, audit again
    let n = wl.ops.len();
    w.step_checked(n, &crate::gen::Op::DrainReaders)?;
    w.audit(n)?;
    Ok(())
}

pub fn state_fp<K: SimKey>(w: &World<K>) -> u64 {
    // (model state, disk shape): distinct-state measure of §2.9
    let mut h = 0u64;
    for (k, c) in &w.model {
        h = mix(h, crate::rng::mix_str(*c as u64, &hex::encode(k.kb())));
    }
    let shape = interpose::with_sim(|s| {
        let wal: Vec<(String, usize)> = s.disk.list("db/").into_iter().filter(|(p, _)| p.ends_with("_index.wal")).map(|(p, n)| (p.clone(), n.cache.len())).collect();
        let snap = s.disk.bytes("db/index").map_or(0, |b| b.len());
        let ncas = s.disk.list("db/cas/").len();
        format!("{wal:?}/{snap}/{ncas}")
    });
    crate::rng::mix_str(h, &shape)
}

fn run_plain<K: SimKey>(case: &Case) -> Outcome {
    let mut out = Outcome::default();
    let base = fresh_dir();
    let mut sim = new_sim(&base, case, 1);
    sim.keep_trace = case.workload.ops.iter().any(|o| matches!(o, crate::gen::Op::ReopenWrongN { .. } | crate::gen::Op::ReopenWrongVersion { .. }));
    interpose::install(sim);
    let mut w = World::<K>::new(&base, &case.workload);
    w.own = case.property.clone();
    if case.workload.cfg.n == 1 {
        w.probes.n_is_1 += 1;
    }
    if case.workload.cfg.async_mode {
        w.probes.async_mode += 1;
    }
    let r = drive(&mut w, &case.workload, &mut out);
    // final clean restart (C02) unless something already failed
    let r = r.and_then(|_| {
        if interpose::with_sim(|s| s.mon.fatal()) {
            Ok(())
        } else {
            w.reopen(case.workload.ops.len())
        }
    });
    w.readers.clear();
    w.close();
    let mut sim = interpose::uninstall().expect("sim installed");
    out.counters.runs = 1;
    out.counters.ops = w.probes.ops;
    out.probes = w.probes.clone();
    if let Err(f) = r {
        out.violation = Some(f);
    }
    out.foreign = w.foreign.borrow_mut().take();
    finish_sim(&mut out, &mut sim, &base, true);
    remove_dir(&base);
    let _ = fail;
    out
}
