//! Executes a workload against the real `Cas<K>` next to the reference model `M` and evaluates the
//! fault-free oracles (C01 C02 C06 C07 C12 C13 C17 C18 C19) operation by operation.

use std::collections::{BTreeMap, BTreeSet};
use std::fs::File;
use std::io::{BufReader, Read};
use std::num::NonZeroU64;
use std::ops::Bound;
use std::panic::{catch_unwind, AssertUnwindSafe};
use std::path::{Path, PathBuf};
use std::sync::Arc;

use cassadilia::{Cas, Config, LibError, OrphanStats, SyncMode};

use crate::decode::{self, Logged};
use crate::gen::{content_bytes, Cfg, Op, Workload, B};
use crate::interpose::{self, with_sim};
use crate::keys::SimKey;

#[derive(Clone, Debug, serde::Serialize, serde::Deserialize)]
pub struct Failure {
    /// properties whose oracle this is
    pub props: Vec<String>,
    pub class: String,
    pub op_index: usize,
    pub message: String,
}

pub fn fail(props: &[&str], class: &str, op_index: usize, message: String) -> Failure {
    Failure { props: props.iter().map(|s| s.to_string()).collect(), class: class.into(), op_index, message }
}

#[derive(Default, Clone, Debug, serde::Serialize, serde::Deserialize)]
pub struct Probes {
    pub same_hash_overwrite: u64,
    pub repoint_shared: u64,
    pub shared_content_puts: u64,
    pub rename_onto_existing: u64,
    pub empty_content: u64,
    pub empty_key: u64,
    pub big_key_record: u64,
    pub multi_key_remove: u64,
    pub aborts: u64,
    pub abort_over_existing: u64,
    pub readers_drained_after_change: u64,
    pub reopen: u64,
    pub reopen_at_boundary: u64,
    pub reopen_without_writes: u64,
    pub checkpoints: u64,
    pub rollovers: u64,
    pub n_is_1: u64,
    pub async_mode: u64,
    pub inverted_ranges: u64,
    pub huge_bounds: u64,
    pub wrong_n_rejected: u64,
    pub wrong_version_rejected: u64,
    pub precreate_flips: u64,
    #[serde(default)]
    pub tx_open_across_call: u64,
    #[serde(default)]
    pub tx_carries_current_value: u64,
    pub ops: u64,
}

impl Probes {
    pub fn add(&mut self, o: &Probes) {
        let a = serde_json::to_value(&*self).unwrap();
        let b = serde_json::to_value(o).unwrap();
        let mut m = serde_json::Map::new();
        for (k, v) in a.as_object().unwrap() {
            m.insert(k.clone(), serde_json::json!(v.as_u64().unwrap() + b[k].as_u64().unwrap()));
        }
        *self = serde_json::from_value(serde_json::Value::Object(m)).unwrap();
    }
}

pub struct World<K: SimKey> {
    pub base: PathBuf,
    pub db: PathBuf,
    pub cfg: Cfg,
    pub cas: Option<Cas<K>>,
    pub last_scan: Option<ScanView>,
    /// the live OrphanStats of the last open (kept only when `keep_stats`)
    pub stats: Option<OrphanStats<K>>,
    pub keep_stats: bool,
    pub keys: Vec<K>,
    pub contents: Vec<Arc<Vec<u8>>>,
    pub hashes: Vec<[u8; 32]>,
    pub model: BTreeMap<K, usize>,
    pub readers: Vec<(BufReader<File>, usize, bool)>,
    pub probes: Probes,
    /// C07 exact-file-set oracle enabled (switched off after an injected error)
    pub exact_files: bool,
    /// number of WAL versions the model believes were written (fault-free runs)
    pub versions: u64,
    pub writes_since_open: u64,
    /// a reopen has flipped `pre_create_cas_dirs` away from the creation-time choice (C19)
    pub pre_create_flipped: bool,
    /// transactions currently held open by the harness (each owns one staging file)
    pub open_txs: usize,
    pub op_index: usize,
    pub set_monitor_expectations: bool,
    /// the stored pre-create choice (set at creation)
    pub created_pre_create: bool,
    /// the property under check: oracle failures of *other* properties that do not invalidate the
    /// continuation are recorded in `foreign` instead of ending the run (so that the property's own
    /// oracles still get to see the consequences)
    pub own: String,
    pub foreign: std::cell::RefCell<Option<Failure>>,
}

/// the orphan scan result in comparable form
#[derive(Clone, Debug, Default, PartialEq, Eq)]
pub struct ScanView {
    pub orphaned: BTreeSet<[u8; 32]>,
    pub invalid: BTreeSet<String>,
    pub missing: BTreeSet<[u8; 32]>,
    pub corrupted: BTreeSet<[u8; 32]>,
    pub staging: BTreeSet<String>,
    pub total_blobs: usize,
    pub dup_entries: bool,
}

pub fn scan_view<K>(st: &OrphanStats<K>, base: &Path) -> ScanView {
    let rel = |p: &PathBuf| p.strip_prefix(base).map(|r| r.to_string_lossy().into_owned()).unwrap_or_else(|_| p.to_string_lossy().into_owned());
    let set = |v: &Vec<cassadilia::BlobHash>| v.iter().map(|h| h.0).collect::<BTreeSet<_>>();
    let v = ScanView {
        orphaned: set(&st.orphaned_blobs),
        invalid: st.invalid_files.iter().map(rel).collect(),
        missing: set(&st.missing_blobs),
        corrupted: set(&st.corrupted_blobs),
        staging: st.staging_files.iter().map(rel).collect(),
        total_blobs: st.total_blobs,
        dup_entries: false,
    };
    let dup = v.orphaned.len() != st.orphaned_blobs.len()
        || v.invalid.len() != st.invalid_files.len()
        || v.missing.len() != st.missing_blobs.len()
        || v.corrupted.len() != st.corrupted_blobs.len()
        || v.staging.len() != st.staging_files.len();
    ScanView { dup_entries: dup, ..v }
}

pub fn to_config(cfg: &Cfg) -> Config {
    Config {
        sync_mode: if cfg.async_mode { SyncMode::Async } else { SyncMode::Sync },
        num_ops_per_wal: NonZeroU64::new(cfg.n).expect("n > 0"),
        pre_create_cas_dirs: cfg.pre_create,
        scan_orphans_on_startup: cfg.scan,
        verify_blob_integrity: cfg.verify,
        fail_on_integrity_errors: cfg.fail_on_integrity,
    }
}

fn bound<K: Clone>(keys: &[K], b: B) -> Bound<K> {
    match b {
        B::U => Bound::Unbounded,
        B::I(i) => Bound::Included(keys[i].clone()),
        B::E(i) => Bound::Excluded(keys[i].clone()),
    }
}

pub fn panic_msg(e: Box<dyn std::any::Any + Send>) -> String {
    if let Some(s) = e.downcast_ref::<&str>() {
        s.to_string()
    } else if let Some(s) = e.downcast_ref::<String>() {
        s.clone()
    } else {
        "<non-string panic payload>".into()
    }
}

/// what an observer can see through the public API
#[derive(Clone, Debug, PartialEq, Eq)]
pub struct Observed {
    pub items: Vec<(Vec<u8>, [u8; 32], u64)>,
    pub bytes_hash: Vec<Option<[u8; 32]>>,
    pub known_blobs: Vec<([u8; 32], u32)>,
    pub unique_blobs: u64,
    pub total_bytes: u64,
}

impl<K: SimKey> World<K> {
    pub fn new(base: &Path, wl: &Workload) -> World<K> {
        let keys = crate::keys::keys_from_hex::<K>(&wl.keys_hex);
        let contents: Vec<Arc<Vec<u8>>> =
            wl.contents.iter().map(|c| Arc::new(content_bytes(wl.content_seed, c))).collect();
        let hashes = contents.iter().map(|c| *blake3::hash(c).as_bytes()).collect();
        World {
            base: base.to_path_buf(),
            db: base.join("db"),
            cfg: wl.cfg.clone(),
            cas: None,
            last_scan: None,
            stats: None,
            keep_stats: false,
            keys,
            contents,
            hashes,
            model: BTreeMap::new(),
            readers: Vec::new(),
            probes: Probes::default(),
            exact_files: true,
            versions: 0,
            writes_since_open: 0,
            pre_create_flipped: false,
            open_txs: 0,
            op_index: 0,
            set_monitor_expectations: true,
            created_pre_create: wl.cfg.pre_create,
            own: String::new(),
            foreign: std::cell::RefCell::new(None),
        }
    }

    pub fn logged_of(&self, m: &BTreeMap<K, usize>) -> Logged {
        m.iter().map(|(k, &c)| (k.kb(), (self.hashes[c], self.contents[c].len() as u64))).collect()
    }

    pub fn model_after(&self, op: &Op) -> BTreeMap<K, usize> {
        let mut m = self.model.clone();
        Self::apply_to_model(&self.keys, &mut m, op);
        m
    }

    fn apply_to_model(keys: &[K], m: &mut BTreeMap<K, usize>, op: &Op) {
        match op {
            Op::Put { k, c, abort: false, .. } => {
                m.insert(keys[*k].clone(), *c);
            }
            Op::PutAround { k, c, abort, inner, .. } => {
                // as if `inner` ran first and the put second
                Self::apply_to_model(keys, m, inner);
                if !*abort {
                    m.insert(keys[*k].clone(), *c);
                }
            }
            Op::Remove { k } => {
                m.remove(&keys[*k]);
            }
            Op::RemoveRange { lo, hi } => {
                let ks: Vec<K> = m.range((bound(keys, *lo), bound(keys, *hi))).map(|(k, _)| k.clone()).collect();
                for k in ks {
                    m.remove(&k);
                }
            }
            _ => {}
        }
    }

    /// open (or create) the database; all cassadilia code runs as simulated code
    pub fn open_raw(&mut self, cfg: &Cfg) -> Result<(), LibError> {
        let db = self.db.clone();
        let config = to_config(cfg);
        let base = self.base.clone();
        let r = interpose::enter(|| Cas::<K>::open_with_recover(&db, config));
        match r {
            Ok((cas, stats)) => {
                self.last_scan = stats.as_ref().map(|s| scan_view(s, &base));
                if self.keep_stats {
                    self.stats = stats;
                } else {
                    drop(stats);
                }
                self.cas = Some(cas);
                self.writes_since_open = 0;
                Ok(())
            }
            Err(e) => Err(e),
        }
    }

    pub fn close(&mut self) {
        if let Some(st) = self.stats.take() {
            interpose::enter(|| drop(st));
        }
        if let Some(c) = self.cas.take() {
            interpose::enter(|| drop(c));
        }
    }

    pub fn open_checked(&mut self, i: usize) -> Result<(), Failure> {
        let cfg = self.cfg.clone();
        let r = catch_unwind(AssertUnwindSafe(|| self.open_raw(&cfg)));
        match r {
            Err(p) => Err(fail(&["C02", "C03"], "panic-in-open", i, format!("open panicked: {}", panic_msg(p)))),
            // (C16: what the store wrote must decode again - a clean open that fails is, among other
            // things, a broken round trip through the disk)
            Ok(Err(e)) => Err(fail(&["C02", "C16"], "open-failed", i, format!("clean open failed: {e} ({e:?})"))),
            Ok(Ok(())) => {
                // after a clean open of a fault-free history the scan must report nothing
                if let (Some(s), true) = (&self.last_scan, self.exact_files) {
                    let expect_total = self.expected_blobs().len();
                    if !s.orphaned.is_empty() || !s.invalid.is_empty() || !s.missing.is_empty() || !s.corrupted.is_empty() || !s.staging.is_empty() || s.total_blobs != expect_total {
                        return self.soft(Err(fail(&["C07", "C08"], "scan-not-clean", i, format!("start-up scan after a clean restart reports garbage or wrong totals: {s:?}, expected total_blobs={expect_total}"))));
                    }
                }
                Ok(())
            }
        }
    }

    pub fn cas(&self) -> &Cas<K> {
        self.cas.as_ref().expect("db open")
    }

    /// hash -> (refcount, size) derived from the model
    pub fn expected_blobs(&self) -> BTreeMap<[u8; 32], (u32, u64)> {
        let mut m: BTreeMap<[u8; 32], (u32, u64)> = BTreeMap::new();
        for &c in self.model.values() {
            let e = m.entry(self.hashes[c]).or_insert((0, self.contents[c].len() as u64));
            e.0 += 1;
        }
        m
    }

    pub fn observe(&self) -> Result<Observed, String> {
        let cas = self.cas();
        interpose::enter(|| {
            let (items, known, stats) = {
                let g = cas.read_index_state();
                let items: Vec<(Vec<u8>, [u8; 32], u64)> =
                    g.iter().map(|(k, it)| (k.kb(), it.blob_hash.0, it.blob_size)).collect();
                let mut known: Vec<([u8; 32], u32)> = g.known_blobs().map(|(h, c)| (h.0, *c)).collect();
                known.sort();
                (items, known, g.stats())
            };
            let mut bytes_hash = Vec::new();
            for (kb, _, _) in &items {
                let k = K::from_key_bytes(kb).ok_or("key bytes from iter() do not decode")?;
                match cas.get(&k) {
                    Ok(Some(b)) => bytes_hash.push(Some(*blake3::hash(&b).as_bytes())),
                    Ok(None) => bytes_hash.push(None),
                    Err(e) => return Err(format!("get failed for listed key {k:?}: {e}")),
                }
            }
            Ok(Observed {
                items,
                bytes_hash,
                known_blobs: known,
                unique_blobs: stats.cas.unique_blobs,
                total_bytes: stats.cas.total_bytes,
            })
        })
    }

    pub fn expected_observed(&self) -> Observed {
        let items: Vec<(Vec<u8>, [u8; 32], u64)> =
            self.model.iter().map(|(k, &c)| (k.kb(), self.hashes[c], self.contents[c].len() as u64)).collect();
        let bytes_hash = self.model.values().map(|&c| Some(self.hashes[c])).collect();
        let eb = self.expected_blobs();
        Observed {
            items,
            bytes_hash,
            known_blobs: eb.iter().map(|(h, (c, _))| (*h, *c)).collect(),
            unique_blobs: eb.len() as u64,
            total_bytes: eb.values().map(|(_, s)| *s).sum(),
        }
    }

    /// C07: cas/ holds exactly one file per referenced content, staging/ is empty (model's disk)
    /// see `own`: a failure of another property's oracle is recorded, not returned
    pub fn soft(&self, r: Result<(), Failure>) -> Result<(), Failure> {
        match r {
            Err(f) if !self.own.is_empty() && !f.props.iter().any(|p| *p == self.own) => {
                let mut g = self.foreign.borrow_mut();
                if g.is_none() {
                    *g = Some(f);
                }
                Ok(())
            }
            other => other,
        }
    }

    pub fn check_files(&self, i: usize) -> Result<(), Failure> {
        self.soft(self.check_files_hard(i))
    }

    pub fn check_files_hard(&self, i: usize) -> Result<(), Failure> {
        if !self.exact_files {
            return Ok(());
        }
        let expect: BTreeSet<String> =
            self.expected_blobs().keys().map(|h| format!("db/cas/{}", decode::cas_rel_path(h))).collect();
        let (have, staging, contents_ok) = with_sim(|s| {
            let have: BTreeSet<String> = s.disk.list("db/cas/").into_iter().map(|(p, _)| p.clone()).collect();
            let staging: Vec<String> = s.disk.list("db/staging/").into_iter().map(|(p, _)| p.clone()).collect();
            let mut bad = None;
            for (p, node) in s.disk.list("db/cas/") {
                let rel = &p["db/cas/".len()..];
                if let Some(h) = decode::parse_cas_rel_path(rel) {
                    if blake3::hash(&node.cache).as_bytes() != &h {
                        bad = Some(p.clone());
                    }
                }
            }
            (have, staging, bad)
        });
        if let Some(p) = contents_ok {
            return Err(fail(&["C06"], "hash-mismatch", i, format!("cas file {p} does not hash to its name")));
        }
        if have != expect {
            let extra: Vec<_> = have.difference(&expect).collect();
            let missing: Vec<_> = expect.difference(&have).collect();
            let props: &[&str] = if missing.is_empty() { &["C07"] } else { &["C07", "C04"] };
            return Err(fail(props, if missing.is_empty() { "leaked-blob" } else { "missing-blob" }, i, format!("cas/ differs from the model at quiescence: extra={extra:?} missing={missing:?}")));
        }
        if staging.len() != self.open_txs {
            return Err(fail(&["C07", "C13"], "staging-not-empty", i, format!("staging/ holds {} file(s) while {} transaction(s) are open: {staging:?}", staging.len(), self.open_txs)));
        }
        Ok(())
    }

    pub fn audit(&mut self, i: usize) -> Result<(), Failure> {
        let obs = self.observe().map_err(|e| fail(&["C01"], "read-failed", i, e))?;
        let exp = self.expected_observed();
        if obs.items != exp.items {
            let order_only = {
                let mut a = obs.items.clone();
                a.sort();
                let mut b = exp.items.clone();
                b.sort();
                a == b
            };
            return Err(fail(&["C01", "C16"], if order_only { "iter-order" } else { "iter-content" }, i, format!("iter() = {:?}\nmodel  = {:?}", brief_items(&obs.items), brief_items(&exp.items))));
        }
        if obs.bytes_hash != exp.bytes_hash {
            return Err(fail(&["C01", "C04"], "get-content", i, "get() bytes of some listed key differ from the model".into()));
        }
        if obs.known_blobs != exp.known_blobs {
            return Err(fail(&["C12"], "refcounts", i, format!("known_blobs() = {:?}\nexpected      = {:?}", brief_blobs(&obs.known_blobs), brief_blobs(&exp.known_blobs))));
        }
        if obs.unique_blobs != exp.unique_blobs || obs.total_bytes != exp.total_bytes {
            return Err(fail(&["C12"], "stats", i, format!("stats().cas = ({}, {}), expected ({}, {})", obs.unique_blobs, obs.total_bytes, exp.unique_blobs, exp.total_bytes)));
        }
        // point queries
        let cas = self.cas.as_ref().unwrap();
        let r: Result<(), Failure> = interpose::enter(|| {
            let g = cas.read_index_state();
            if g.len() != self.model.len() || g.is_empty() != self.model.is_empty() {
                return Err(fail(&["C01"], "len", i, format!("len()={} is_empty()={} model len={}", g.len(), g.is_empty(), self.model.len())));
            }
            // keys_snapshot(): a clone of the ordered map
            let snap = g.keys_snapshot();
            let snap_ok = snap.len() == self.model.len()
                && snap.iter().zip(self.model.iter()).all(|((k1, it), (k2, &c))| k1 == k2 && it.blob_hash.0 == self.hashes[c] && it.blob_size == self.contents[c].len() as u64);
            if !snap_ok {
                return Err(fail(&["C01"], "keys-snapshot", i, format!("keys_snapshot() has {} entries and differs from the model ({} entries)", snap.len(), self.model.len())));
            }
            // full-range iteration through range(..) must equal iter()
            let via_range: Vec<Vec<u8>> = g.range::<K, _>(..).map(|(k, _)| k.kb()).collect();
            let via_iter: Vec<Vec<u8>> = g.iter().map(|(k, _)| k.kb()).collect();
            if via_range != via_iter {
                return Err(fail(&["C01"], "range-vs-iter", i, "range(..) and iter() enumerate different keys".into()));
            }
            for k in &self.keys {
                let want = self.model.get(k);
                if g.contains_key(k) != want.is_some() {
                    return Err(fail(&["C01"], "contains-key", i, format!("contains_key({k:?}) wrong")));
                }
                let it = g.get_item(k);
                match (it, want) {
                    (None, None) => {}
                    (Some(it), Some(&c)) => {
                        if it.blob_hash.0 != self.hashes[c] || it.blob_size != self.contents[c].len() as u64 {
                            return Err(fail(&["C01", "C12", "C18"], "item", i, format!("get_item({k:?}) has wrong hash/size")));
                        }
                        if g.require_item(k).ok() != Some(it) {
                            return Err(fail(&["C01"], "require-item", i, format!("require_item({k:?}) disagrees with get_item")));
                        }
                    }
                    _ => return Err(fail(&["C01"], "get-item", i, format!("get_item({k:?}) presence wrong"))),
                }
                if want.is_none() && g.require_item(k).is_ok() {
                    return Err(fail(&["C01"], "require-item", i, format!("require_item({k:?}) ok for an absent key")));
                }
            }
            for (ci, h) in self.hashes.iter().enumerate() {
                let referenced = self.model.values().any(|&c| self.hashes[c] == *h);
                if g.contains_blob_hash(&cassadilia::BlobHash(*h)) != referenced {
                    return Err(fail(&["C12"], "contains-blob-hash", i, format!("contains_blob_hash(content {ci}) = {} but referenced = {referenced}", !referenced)));
                }
            }
            drop(g);
            for k in &self.keys {
                let want = self.model.get(k).map(|&c| self.contents[c].len() as u64);
                match cas.get_size(k) {
                    Ok(v) if v == want => {}
                    other => return Err(fail(&["C01", "C12", "C17"], "get-size", i, format!("get_size({k:?}) = {other:?}, expected {want:?}"))),
                }
            }
            Ok(())
        });
        r?;
        self.check_files(i)
    }

    fn expect_range(&self, k: usize, start: u64, end: u64) -> Result<Option<Vec<u8>>, ()> {
        let Some(&c) = self.model.get(&self.keys[k]) else { return Ok(None) };
        let data = &self.contents[c];
        let l = data.len() as u64;
        if start > end {
            return if start < l { Err(()) } else { Ok(Some(Vec::new())) };
        }
        let s = start.min(l) as usize;
        let e = end.min(l) as usize;
        Ok(Some(data[s..e].to_vec()))
    }

    /// execute one operation with the fault-free oracles. Ok(()) = everything as the model says.
    pub fn step_checked(&mut self, i: usize, op: &Op) -> Result<(), Failure> {
        self.op_index = i;
        self.probes.ops += 1;
        let next = self.model_after(op);
        if self.set_monitor_expectations {
            let a = self.logged_of(&self.model);
            let b = self.logged_of(&next);
            let mut allowed = if a == b { vec![a] } else { vec![a, b] };
            if let Op::PutAround { inner, .. } = op {
                // two logged operations inside one harness step: the state in between is legal too
                let mid = self.logged_of(&self.model_after(inner));
                if !allowed.contains(&mid) {
                    allowed.insert(1, mid);
                }
            }
            with_sim(|s| {
                s.begin_op(i as u32);
                s.mon.allowed = allowed;
            });
        } else {
            with_sim(|s| s.begin_op(i as u32));
        }
        let r = catch_unwind(AssertUnwindSafe(|| self.step_inner(i, op, next)));
        with_sim(|s| {
            s.end_op();
            let Sim { mon, disk, .. } = s;
            mon.ack(disk);
        });
        match r {
            Ok(r) => r,
            Err(p) => Err(fail(&["C01", "C17", "C16"], "panic", i, format!("{} panicked: {}", op.short(), panic_msg(p)))),
        }
    }

    fn step_inner(&mut self, i: usize, op: &Op, next: BTreeMap<K, usize>) -> Result<(), Failure> {
        match op {
            Op::Put { k, c, chunks, abort } => {
                let key = self.keys[*k].clone();
                let data = self.contents[*c].clone();
                if key.kb().is_empty() {
                    self.probes.empty_key += 1;
                }
                if data.is_empty() {
                    self.probes.empty_content += 1;
                }
                if key.kb().len() > 8000 {
                    self.probes.big_key_record += 1;
                }
                let prev = self.model.get(&key).copied();
                if !*abort {
                    if let Some(p) = prev {
                        if self.hashes[p] == self.hashes[*c] {
                            self.probes.same_hash_overwrite += 1;
                        } else if self.model.values().filter(|&&x| self.hashes[x] == self.hashes[p]).count() > 1 {
                            self.probes.repoint_shared += 1;
                        }
                    }
                    if self.model.values().any(|&x| self.hashes[x] == self.hashes[*c]) {
                        self.probes.shared_content_puts += 1;
                        self.probes.rename_onto_existing += 1;
                    }
                } else {
                    self.probes.aborts += 1;
                    if prev.is_some() {
                        self.probes.abort_over_existing += 1;
                    }
                }
                let before = if *abort { Some(self.disk_fingerprint()) } else { None };
                let fds_before = with_sim(|s| s.open_fd_paths());
                let cas = self.cas.as_ref().unwrap();
                let res: Result<(), String> = interpose::enter(|| {
                    let mut tx = cas.put(key.clone()).map_err(|e| format!("put(): {e}"))?;
                    let mut off = 0;
                    for &n in chunks {
                        tx.write(&data[off..off + n]).map_err(|e| format!("write(): {e}"))?;
                        off += n;
                    }
                    assert_eq!(off, data.len(), "harness: chunks must cover the content");
                    if *abort {
                        drop(tx);
                        Ok(())
                    } else {
                        tx.finish().map_err(|e| format!("finish(): {e} ({e:?})"))
                    }
                });
                if let Err(e) = res {
                    // after a reopen that flipped pre_create_cas_dirs a failing put also speaks for C19
                    // ("the choice made at creation is remembered and does not change behaviour")
                    // (and so does a failing put on a database that has, or was created with, the tree)
                    let props: &[&str] = if self.pre_create_flipped || self.cfg.pre_create { &["C01", "C18", "C19"] } else { &["C01", "C18"] };
                    return Err(fail(props, "put-failed", i, format!("{} failed without any injected fault: {e}", op.short())));
                }
                self.model = next;
                if *abort {
                    // C13: nothing changed anywhere
                    let after = self.disk_fingerprint();
                    if before.as_ref() != Some(&after) {
                        return Err(fail(&["C13"], "abort-left-trace", i, format!("an abandoned transaction changed the directory: before={before:?} after={after:?}")));
                    }
                    // "its staging file is gone": not merely unlinked - a descriptor left open keeps
                    // the inode (and everything written through) allocated and accumulates
                    let fds_after = with_sim(|s| s.open_fd_paths());
                    // (only additions count: in Async mode the model may still list descriptors that the
                    // fdatasync worker has closed, and the transaction can reuse their numbers)
                    let leaked: Vec<&String> = fds_after.iter().filter(|p| !fds_before.contains(p)).collect();
                    if !leaked.is_empty() {
                        return Err(fail(&["C13"], "abort-leaked-descriptor", i, format!("after an abandoned transaction descriptors are still open on {leaked:?}")));
                    }
                    let got = interpose::enter(|| cas.get(&key));
                    let want = prev.map(|p| self.contents[p].clone());
                    match got {
                        Ok(g) if g.as_ref().map(|b| b.as_ref()) == want.as_ref().map(|w| w.as_slice()) => {}
                        other => return Err(fail(&["C13", "C01"], "abort-changed-value", i, format!("after an abandoned transaction get() = {:?}", other.map(|o| o.map(|b| b.len()))))),
                    }
                } else {
                    self.versions += 1;
                    self.writes_since_open += 1;
                    if self.cfg.n > 0 && self.versions > 1 && (self.versions - 1) % self.cfg.n == 0 {
                        self.probes.rollovers += 1;
                    }
                    // C18: identity depends on content only
                    let item = interpose::enter(|| cas.read_index_state().get_item(&key));
                    let Some(item) = item else {
                        return Err(fail(&["C01"], "put-not-visible", i, "key absent right after finish()".into()));
                    };
                    if item.blob_hash.0 != self.hashes[*c] || item.blob_size != data.len() as u64 {
                        return Err(fail(&["C18", "C01"], "hash-or-size", i, format!("after finish(): hash {} size {}, expected blake3(content)={} len={} (chunks {:?})", hex::encode(item.blob_hash.0), item.blob_size, hex::encode(self.hashes[*c]), data.len(), chunks)));
                    }
                    let path = format!("db/cas/{}", decode::cas_rel_path(&self.hashes[*c]));
                    let ok = with_sim(|s| s.disk.bytes(&path).map(|b| b == data.as_slice()));
                    match ok {
                        Some(true) => {}
                        Some(false) => self.soft(Err(fail(&["C18", "C06"], "blob-bytes", i, format!("file at {path} does not hold the committed content"))))?,
                        None => self.soft(Err(fail(&["C18", "C04"], "blob-path", i, format!("no file at the checker-computed path {path} after finish()"))))?,
                    }
                }
                self.check_files(i)
            }
            Op::PutAround { k, c, chunks, abort, inner } => {
                self.probes.tx_open_across_call += 1;
                let key = self.keys[*k].clone();
                let data = self.contents[*c].clone();
                if self.model.get(&key).is_some_and(|&cur| self.hashes[cur] == self.hashes[*c]) {
                    self.probes.tx_carries_current_value += 1;
                }
                // the transaction lives on a clone of the handle so that the inner call can borrow the
                // world; every drop below happens as simulated code
                let cas2 = self.cas.as_ref().unwrap().clone();
                let split = chunks.len() / 2;
                let put_failed = |e: String, w: &World<K>| {
                    let props: &[&str] = if w.pre_create_flipped || w.cfg.pre_create { &["C01", "C18", "C19"] } else { &["C01", "C18"] };
                    fail(props, "put-failed", i, format!("{} failed without any injected fault: {e}", op.short()))
                };
                let mut tx = match interpose::enter(|| cas2.put(key.clone())) {
                    Ok(t) => t,
                    Err(e) => {
                        interpose::enter(|| drop(cas2));
                        return Err(put_failed(format!("put(): {e}"), self));
                    }
                };
                let mut off = 0;
                let mut werr = None;
                for &n in &chunks[..split] {
                    if let Err(e) = interpose::enter(|| tx.write(&data[off..off + n])) {
                        werr = Some(format!("write(): {e}"));
                        break;
                    }
                    off += n;
                }
                if let Some(e) = werr {
                    interpose::enter(|| drop(tx));
                    interpose::enter(|| drop(cas2));
                    return Err(put_failed(e, self));
                }
                // ---- the other call, with its own model transition and oracles -----------------
                self.open_txs += 1;
                let mid = self.model_after(inner);
                let r = self.step_inner(i, inner, mid);
                self.open_txs -= 1;
                if let Err(f) = r {
                    interpose::enter(|| drop(tx));
                    interpose::enter(|| drop(cas2));
                    return Err(f);
                }
                let prev = self.model.get(&key).copied();
                // ---- the rest of the transaction ---------------------------------------------
                let res: Result<(), String> = interpose::enter(|| {
                    for &n in &chunks[split..] {
                        tx.write(&data[off..off + n]).map_err(|e| format!("write(): {e}"))?;
                        off += n;
                    }
                    assert_eq!(off, data.len(), "harness: chunks must cover the content");
                    if *abort {
                        drop(tx);
                        Ok(())
                    } else {
                        tx.finish().map_err(|e| format!("finish(): {e} ({e:?})"))
                    }
                });
                if let Err(e) = res {
                    interpose::enter(|| drop(cas2));
                    return Err(put_failed(e, self));
                }
                self.model = next;
                let got = interpose::enter(|| cas2.get(&key));
                let item = interpose::enter(|| cas2.read_index_state().get_item(&key));
                interpose::enter(|| drop(cas2));
                if *abort {
                    let want = prev.map(|p| self.contents[p].clone());
                    match got {
                        Ok(g) if g.as_ref().map(|b| b.as_ref()) == want.as_ref().map(|w| w.as_slice()) => {}
                        other => return Err(fail(&["C13", "C01"], "abort-changed-value", i, format!("after a transaction that was open across {} and then abandoned, get() = {:?}", inner.short(), other.map(|o| o.map(|b| b.len()))))),
                    }
                } else {
                    self.versions += 1;
                    self.writes_since_open += 1;
                    match got {
                        Ok(Some(b)) if b.as_ref() == data.as_slice() => {}
                        other => {
                            return Err(fail(
                                &["C01", "C13"],
                                "get-result",
                                i,
                                format!("after finish() of a transaction that was open across {}, get({key:?}) = {:?}, expected the {} bytes written through it", inner.short(), other.map(|o| o.map(|b| b.len())), data.len()),
                            ))
                        }
                    }
                    match item {
                        Some(it) if it.blob_hash.0 == self.hashes[*c] && it.blob_size == data.len() as u64 => {}
                        _ => return Err(fail(&["C18", "C01"], "hash-or-size", i, format!("after finish() of a transaction open across {}: index entry differs from blake3(content)/len", inner.short()))),
                    }
                }
                self.check_files(i)
            }
            Op::Remove { k } => {
                let key = self.keys[*k].clone();
                let want = self.model.contains_key(&key);
                let cas = self.cas.as_ref().unwrap();
                match interpose::enter(|| cas.remove(&key)) {
                    Ok(b) if b == want => {}
                    other => return Err(fail(&["C01"], "remove-result", i, format!("remove({key:?}) = {other:?}, expected Ok({want})"))),
                }
                if want {
                    self.versions += 1;
                    self.writes_since_open += 1;
                }
                self.model = next;
                self.check_files(i)
            }
            Op::RemoveRange { lo, hi } => {
                let r = (bound(&self.keys, *lo), bound(&self.keys, *hi));
                let want = self.model.range(r.clone()).count();
                if want > 1 {
                    self.probes.multi_key_remove += 1;
                }
                let cas = self.cas.as_ref().unwrap();
                match interpose::enter(|| cas.remove_range(r.clone())) {
                    Ok(n) if n == want => {}
                    other => return Err(fail(&["C01"], "remove-range-result", i, format!("remove_range({r:?}) = {other:?}, expected Ok({want})"))),
                }
                if want > 0 {
                    self.versions += 1;
                    self.writes_since_open += 1;
                }
                self.model = next;
                self.check_files(i)
            }
            Op::Get { k } => {
                let key = &self.keys[*k];
                let want = self.model.get(key).map(|&c| self.contents[c].clone());
                let cas = self.cas.as_ref().unwrap();
                match interpose::enter(|| cas.get(key)) {
                    Ok(g) if g.as_ref().map(|b| b.as_ref()) == want.as_ref().map(|w| w.as_slice()) => Ok(()),
                    Ok(g) => Err(fail(&["C01"], "get-result", i, format!("get({key:?}) returned {:?} bytes, expected {:?}", g.map(|b| b.len()), want.map(|w| w.len())))),
                    Err(e) => Err(fail(&["C01", "C04"], "get-error", i, format!("get({key:?}) failed: {e}"))),
                }
            }
            Op::GetSize { k } => {
                let key = &self.keys[*k];
                let want = self.model.get(key).map(|&c| self.contents[c].len() as u64);
                let cas = self.cas.as_ref().unwrap();
                match interpose::enter(|| cas.get_size(key)) {
                    Ok(g) if g == want => Ok(()),
                    other => Err(fail(&["C01", "C17", "C12"], "get-size", i, format!("get_size({key:?}) = {other:?}, expected {want:?}"))),
                }
            }
            Op::GetRange { k, start, end } => {
                let key = &self.keys[*k];
                if start > end {
                    self.probes.inverted_ranges += 1;
                }
                if *end >= (1 << 32) {
                    self.probes.huge_bounds += 1;
                }
                let want = self.expect_range(*k, *start, *end);
                let cas = self.cas.as_ref().unwrap();
                crate::alloc::window_start();
                let got = interpose::enter(|| cas.get_range(key, *start, *end));
                let max_alloc = crate::alloc::window_end();
                // "no request ... allocates beyond L": observed from outside (largest single allocation)
                let l = self.model.get(key).map_or(0, |&c| self.contents[c].len());
                if max_alloc > l + (64 << 10) {
                    return Err(fail(&["C17"], "allocation-bound", i, format!("get_range({key:?}, {start}, {end}) on a {l}-byte blob made a single allocation of {max_alloc} bytes")));
                }
                match (got, want) {
                    (Ok(g), Ok(w)) if g.as_ref().map(|b| b.as_ref()) == w.as_deref() => Ok(()),
                    (Err(_), Err(())) => Ok(()),
                    (g, w) => Err(fail(&["C17", "C01"], "get-range", i, format!("get_range({key:?}, {start}, {end}) = {:?}, expected {:?}", g.map(|o| o.map(|b| b.len())).map_err(|e| e.to_string()), w.map(|o| o.map(|b| b.len()))))),
                }
            }
            Op::OpenReader { k } => {
                let key = &self.keys[*k];
                let want = self.model.get(key).copied();
                let cas = self.cas.as_ref().unwrap();
                match (interpose::enter(|| cas.get_reader(key)), want) {
                    (Ok(Some(r)), Some(c)) => {
                        self.readers.push((r, c, false));
                        Ok(())
                    }
                    (Ok(None), None) => Ok(()),
                    (g, w) => Err(fail(&["C01"], "get-reader", i, format!("get_reader({key:?}) presence = {:?}, expected {:?}", g.map(|o| o.is_some()).map_err(|e| e.to_string()), w.is_some()))),
                }
            }
            Op::DrainReaders => {
                let readers = std::mem::take(&mut self.readers);
                for (mut r, c, _) in readers {
                    let mut buf = Vec::new();
                    let res = interpose::enter(|| r.read_to_end(&mut buf));
                    // was the key changed since the reader was opened?
                    let still = self.model.values().any(|&x| self.hashes[x] == self.hashes[c]);
                    if !still {
                        self.probes.readers_drained_after_change += 1;
                    }
                    match res {
                        Ok(_) if buf == *self.contents[c] => {}
                        Ok(n) => return Err(fail(&["C06", "C01", "C17"], "reader-bytes", i, format!("a reader streamed {n} bytes that differ from the content it was opened on ({} bytes)", self.contents[c].len()))),
                        Err(e) => return Err(fail(&["C06", "C01"], "reader-error", i, format!("reader failed: {e}"))),
                    }
                }
                Ok(())
            }
            Op::Range { lo, hi } => {
                let r = (bound(&self.keys, *lo), bound(&self.keys, *hi));
                let want: Vec<(Vec<u8>, [u8; 32], u64)> = self
                    .model
                    .range(r.clone())
                    .map(|(k, &c)| (k.kb(), self.hashes[c], self.contents[c].len() as u64))
                    .collect();
                let cas = self.cas.as_ref().unwrap();
                let got: Vec<(Vec<u8>, [u8; 32], u64)> = interpose::enter(|| {
                    cas.read_index_state().range::<K, _>(r.clone()).map(|(k, it)| (k.kb(), it.blob_hash.0, it.blob_size)).collect()
                });
                if got != want {
                    return Err(fail(&["C01"], "range-iter", i, format!("range({r:?}) = {:?}, model = {:?}", brief_items(&got), brief_items(&want))));
                }
                Ok(())
            }
            Op::Audit => self.audit(i),
            Op::Checkpoint => {
                self.probes.checkpoints += 1;
                let cas = self.cas.as_ref().unwrap();
                if let Err(e) = interpose::enter(|| cas.checkpoint()) {
                    return Err(fail(&["C01", "C02"], "checkpoint-failed", i, format!("checkpoint() failed: {e}")));
                }
                self.check_index_size(i)?;
                self.check_files(i)
            }
            Op::Reopen => self.reopen(i),
            Op::ReopenWrongN { n } => self.reopen_wrong(i, Some(*n), None),
            Op::ReopenWrongVersion { v } => self.reopen_wrong(i, None, Some(*v)),
            Op::ReopenFlipPreCreate => {
                self.probes.precreate_flips += 1;
                self.cfg.pre_create = !self.cfg.pre_create;
                self.pre_create_flipped = true;
                self.reopen(i)
            }
        }
    }

    /// stats().index.serialized_size_bytes equals the byte length of `index` (0 if absent)
    pub fn check_index_size(&self, i: usize) -> Result<(), Failure> {
        self.soft(self.check_index_size_hard(i))
    }

    pub fn check_index_size_hard(&self, i: usize) -> Result<(), Failure> {
        let cas = self.cas.as_ref().unwrap();
        let reported = interpose::enter(|| cas.stats().index.serialized_size_bytes);
        let actual = with_sim(|s| s.disk.bytes("db/index").map_or(0, |b| b.len() as u64));
        if reported != actual {
            return Err(fail(&["C12", "C02"], "index-size", i, format!("stats().index.serialized_size_bytes = {reported}, index file has {actual} bytes")));
        }
        Ok(())
    }

    pub fn reopen(&mut self, i: usize) -> Result<(), Failure> {
        self.probes.reopen += 1;
        if self.writes_since_open == 0 {
            self.probes.reopen_without_writes += 1;
        }
        if self.versions > 0 && (self.versions % self.cfg.n == 0 || self.versions % self.cfg.n == 1) {
            self.probes.reopen_at_boundary += 1;
        }
        let before = self.observe().map_err(|e| fail(&["C01"], "read-failed", i, e))?;
        self.close();
        self.open_checked(i)?;
        let after = self.observe().map_err(|e| fail(&["C02"], "read-failed-after-reopen", i, e))?;
        if before != after {
            return Err(fail(&["C02"], "restart-visible", i, format!("observable state changed across a clean restart:\nbefore: {}\nafter:  {}", brief_obs(&before), brief_obs(&after))));
        }
        let exp = self.expected_observed();
        if after != exp {
            let props: &[&str] = if after.items != exp.items { &["C02", "C16"] } else { &["C02", "C12"] };
            return Err(fail(props, "restart-vs-model", i, format!("state after restart differs from the model:\nafter: {}\nmodel: {}", brief_obs(&after), brief_obs(&exp))));
        }
        self.check_index_size(i)?;
        self.check_files(i)
    }

    /// C19: an open with the wrong segment size / format version is rejected before anything is
    /// modified; the next correct open sees the data unchanged.
    fn reopen_wrong(&mut self, i: usize, wrong_n: Option<u64>, wrong_version: Option<u64>) -> Result<(), Failure> {
        self.close();
        let settings_path = self.db.join("db_settings.json");
        let saved = interpose::bypass(|| std::fs::read(&settings_path)).ok();
        let mut cfg = self.cfg.clone();
        if let Some(n) = wrong_n {
            cfg.n = n;
        }
        let torn = wrong_version == Some(TORN_SETTINGS);
        if torn {
            // the settings file cut short (to nothing, to half, by 4 bytes) and an open with another
            // segment size: a file that does not parse is not "no settings yet" - the open must be
            // rejected and must leave everything as it is (seeded change C19-e)
            let b = saved.clone().unwrap_or_default();
            let cut = [0, b.len() / 2, b.len().saturating_sub(4)][i % 3];
            interpose::bypass(|| std::fs::write(&settings_path, &b[..cut])).unwrap();
            with_sim(|s| s.disk = crate::sim::Disk::from_dir(&self.base).unwrap());
            cfg.n += 1;
        } else if let Some(v) = wrong_version {
            // forge the stored version (F-forge at rest, outside the simulated call stream)
            let txt = String::from_utf8(saved.clone().unwrap_or_default()).unwrap_or_default();
            let mut val: serde_json::Value = serde_json::from_str(&txt).map_err(|e| fail(&["C19"], "settings-unreadable", i, format!("db_settings.json is not JSON: {e}")))?;
            val["version"] = serde_json::json!(v);
            let bytes = serde_json::to_vec(&val).unwrap();
            interpose::bypass(|| std::fs::write(&settings_path, &bytes)).unwrap();
            with_sim(|s| s.disk = crate::sim::Disk::from_dir(&self.base).unwrap());
        }
        let before = with_sim(|s| disk_image(&s.disk));
        let step_before = with_sim(|s| s.step);
        let r = catch_unwind(AssertUnwindSafe(|| self.open_raw(&cfg)));
        let res = match r {
            Err(p) => return Err(fail(&["C19"], "panic", i, format!("rejected open panicked: {}", panic_msg(p)))),
            Ok(r) => r,
        };
        let kind_ok = match (&res, wrong_n, wrong_version) {
            (Err(LibError::Settings(_)), _, _) if torn => true,
            (Err(LibError::Settings(e)), Some(_), _) => format!("{e:?}").contains("ValidationFailed"),
            (Err(LibError::Settings(e)), _, Some(_)) => format!("{e:?}").contains("UnsupportedVersion"),
            _ => false,
        };
        if res.is_ok() {
            self.close();
            return Err(fail(&["C19"], "wrong-open-accepted", i, format!("open with n={wrong_n:?} / stored version={wrong_version:?} was accepted")));
        }
        if !kind_ok {
            return Err(fail(&["C19"], "wrong-error", i, format!("open with n={wrong_n:?} / stored version={wrong_version:?} failed with an unexpected error: {:?}", res.err().map(|e| e.to_string()))));
        }
        let after = with_sim(|s| disk_image(&s.disk));
        if before != after {
            let diff: Vec<_> = after.iter().filter(|(k, v)| before.get(*k) != Some(v)).map(|(k, _)| k.clone()).chain(before.keys().filter(|k| !after.contains_key(*k)).cloned()).collect();
            return Err(fail(&["C19"], "rejected-open-modified-files", i, format!("a rejected open modified the database directory: {diff:?}")));
        }
        // no mutating call other than opening LOCK (and no-op mkdirs, which are not numbered)
        let bad: Vec<String> = with_sim(|s| {
            s.trace.iter().filter(|e| e.mutating && e.step > step_before && !(e.call == crate::sim::Call::OpenWrite && e.path == "db/LOCK")).map(|e| format!("{} {}", e.call.name(), e.path)).collect()
        });
        if !bad.is_empty() {
            return Err(fail(&["C19"], "rejected-open-mutating-calls", i, format!("a rejected open issued mutating calls: {bad:?}")));
        }
        if wrong_n.is_some() {
            self.probes.wrong_n_rejected += 1;
        } else {
            self.probes.wrong_version_rejected += 1;
        }
        if wrong_version.is_some() {
            if let Some(b) = saved {
                interpose::bypass(|| std::fs::write(&settings_path, &b)).unwrap();
                with_sim(|s| s.disk = crate::sim::Disk::from_dir(&self.base).unwrap());
            }
        }
        self.open_checked(i)?;
        let after = self.observe().map_err(|e| fail(&["C19", "C02"], "read-failed-after-reopen", i, e))?;
        if after != self.expected_observed() {
            return Err(fail(&["C19", "C02"], "data-changed-after-rejected-open", i, "state after a rejected open + correct open differs from the model".into()));
        }
        Ok(())
    }

    /// everything C13 says must not change: cas/ listing, staging/ listing, WAL bytes, snapshot
    pub fn disk_fingerprint(&self) -> BTreeMap<String, (usize, [u8; 32])> {
        with_sim(|s| disk_image(&s.disk).into_iter().filter(|(k, _)| k != "db/LOCK").collect())
    }
}

use crate::sim::Sim;

/// `Op::ReopenWrongVersion { v: TORN_SETTINGS }` = the settings file cut short instead of a forged version
pub const TORN_SETTINGS: u64 = 0xffff_fffe;

pub fn disk_image(d: &crate::sim::Disk) -> BTreeMap<String, (usize, [u8; 32])> {
    let mut m: BTreeMap<String, (usize, [u8; 32])> =
        d.files.iter().map(|(p, &i)| (p.clone(), (d.inodes[i].cache.len(), *blake3::hash(&d.inodes[i].cache).as_bytes()))).collect();
    for dir in &d.dirs {
        m.insert(format!("{dir}/"), (0, [0; 32]));
    }
    m
}

pub fn brief_items(v: &[(Vec<u8>, [u8; 32], u64)]) -> Vec<String> {
    v.iter()
        .map(|(k, h, s)| {
            let kh = hex::encode(k);
            let kh = if kh.len() > 16 { format!("{}..({}B)", &kh[..16], k.len()) } else { kh };
            format!("{kh}->{}:{s}", &hex::encode(h)[..8])
        })
        .collect()
}
pub fn brief_blobs(v: &[([u8; 32], u32)]) -> Vec<String> {
    v.iter().map(|(h, c)| format!("{}x{c}", &hex::encode(h)[..8])).collect()
}
pub fn brief_obs(o: &Observed) -> String {
    format!("items={:?} blobs={:?} unique={} bytes={}", brief_items(&o.items), brief_blobs(&o.known_blobs), o.unique_blobs, o.total_bytes)
}
