//! Key types the workloads are generic over (DESIGN.md §2.5).

use std::fmt::Debug;
use std::hash::Hash;

use cassadilia::KeyBytes;

use crate::gen::KeyType;
use crate::rng::Rng;

pub trait SimKey: KeyBytes + Clone + Eq + Ord + Hash + Debug + Send + Sync + 'static {
    const KT: KeyType;
    fn draw(rng: &mut Rng, big: bool) -> Self;
    fn kb(&self) -> Vec<u8> {
        self.to_key_bytes_owned()
    }
}

/// length of a key that makes one WAL record larger than 8 KiB; sometimes larger than 64 KiB (beyond
/// any 16-bit length somebody might assume for keys), rarely larger than 1 MiB (beyond any "no record
/// is that large" bound somebody might put into the replay path only - seeded change C03-d)
fn big_key_len(rng: &mut Rng, spread: u64) -> usize {
    // (same draws as before the 1 MiB class existed, so that other runs keep their keys)
    let n = if rng.chance(1, 3) { 65_536 + rng.below(5000) as usize } else { 9000 + rng.below(spread) as usize };
    if n >= 65_536 && n % 4 == 0 {
        1_048_576 + n % 3000
    } else {
        n
    }
}

impl SimKey for String {
    const KT: KeyType = KeyType::Str;
    fn draw(rng: &mut Rng, big: bool) -> Self {
        const POOL: [&str; 10] = ["", "a", "b", "ab", "a\0", "é", "ключ", "zz", "\u{10ffff}", "k"];
        match rng.below(10) {
            0..=5 => POOL[rng.below(POOL.len() as u64) as usize].to_string(),
            6 if big => {
                // a key that makes one WAL record larger than 8 KiB; sometimes larger than 64 KiB
                // (beyond any 16-bit length somebody might assume for keys)
                let n = big_key_len(rng, 200);
                let c = (b'a' + rng.below(26) as u8) as char;
                std::iter::repeat(c).take(n).collect()
            }
            _ => {
                let n = 1 + rng.below(12) as usize;
                (0..n).map(|_| (b'a' + rng.below(26) as u8) as char).collect()
            }
        }
    }
}

impl SimKey for Vec<u8> {
    const KT: KeyType = KeyType::Bytes;
    fn draw(rng: &mut Rng, big: bool) -> Self {
        match rng.below(10) {
            0 => vec![],
            1 => vec![0],
            2 => vec![0xff],
            3 => vec![0, 0],
            4 => vec![0xc3, 0x28], // invalid UTF-8
            5 if big => {
                let n = big_key_len(rng, 100);
                vec![rng.below(256) as u8; n]
            }
            _ => {
                let n = 1 + rng.below(10) as usize;
                rng.bytes(n)
            }
        }
    }
}

impl SimKey for [u8; 4] {
    const KT: KeyType = KeyType::Arr4;
    fn draw(rng: &mut Rng, _big: bool) -> Self {
        match rng.below(4) {
            0 => [0; 4],
            1 => [0xff; 4],
            _ => {
                let b = rng.bytes(4);
                [b[0], b[1], b[2], b[3]]
            }
        }
    }
}

macro_rules! int_key {
    ($t:ty, $kt:expr) => {
        impl SimKey for $t {
            const KT: KeyType = $kt;
            fn draw(rng: &mut Rng, _big: bool) -> Self {
                match rng.below(8) {
                    0 => 0,
                    1 => 1,
                    2 => <$t>::MAX,
                    3 => <$t>::MIN,
                    4 => (0 as $t).wrapping_sub(1),
                    5 => <$t>::MAX / 2,
                    _ => {
                        let b = rng.bytes(16);
                        let mut x = [0u8; std::mem::size_of::<$t>()];
                        x.copy_from_slice(&b[..std::mem::size_of::<$t>()]);
                        <$t>::from_le_bytes(x)
                    }
                }
            }
        }
    };
}
int_key!(u8, KeyType::U8);
int_key!(u32, KeyType::U32);
int_key!(i64, KeyType::I64);
int_key!(u128, KeyType::U128);
int_key!(i128, KeyType::I128);

/// `n` distinct keys in ascending key order
pub fn gen_keys<K: SimKey>(rng: &mut Rng, n: usize, big: bool) -> Vec<K> {
    let mut set = std::collections::BTreeSet::new();
    let mut tries = 0;
    let mut have_big = false;
    while set.len() < n && tries < 10_000 {
        tries += 1;
        let k = K::draw(rng, big && !have_big);
        if k.kb().len() > 5000 {
            have_big = true;
        }
        set.insert(k);
    }
    set.into_iter().collect()
}

pub fn keys_from_hex<K: SimKey>(hexes: &[String]) -> Vec<K> {
    hexes
        .iter()
        .map(|h| K::from_key_bytes(&hex::decode(h).expect("key hex")).expect("key bytes valid for type"))
        .collect()
}

#[macro_export]
macro_rules! dispatch_key_type {
    ($kt:expr, $f:ident ( $($a:expr),* )) => {
        match $kt {
            $crate::gen::KeyType::Str => $f::<String>($($a),*),
            $crate::gen::KeyType::Bytes => $f::<Vec<u8>>($($a),*),
            $crate::gen::KeyType::Arr4 => $f::<[u8; 4]>($($a),*),
            $crate::gen::KeyType::U8 => $f::<u8>($($a),*),
            $crate::gen::KeyType::U32 => $f::<u32>($($a),*),
            $crate::gen::KeyType::I64 => $f::<i64>($($a),*),
            $crate::gen::KeyType::U128 => $f::<u128>($($a),*),
            $crate::gen::KeyType::I128 => $f::<i128>($($a),*),
        }
    };
}
