//! Independent decoders of the documented on-disk formats (DESIGN.md §2.6). Shares no code with
//! cassadilia; only the `blake3` crate is in the trusted base.
//!
//! snapshot: [u64 ver][u32 n]{[u32 klen][key][32 hash][u64 size]}*
//! record  : [u64 version][32 blake3(payload)][u32 len][payload]
//! payload : 0 [u32 klen][key][32 hash][u64 size]  |  1 [u32 n]{[u32 klen][key]}*
//! sentinel: 44 zero bytes;  segment id = (version-1)/N

use std::collections::BTreeMap;

pub const HDR: usize = 44;

pub type Logged = BTreeMap<Vec<u8>, ([u8; 32], u64)>;

#[derive(Clone, Debug, PartialEq, Eq)]
pub enum LogOp {
    Put { key: Vec<u8>, hash: [u8; 32], size: u64 },
    Remove { keys: Vec<Vec<u8>> },
}

#[derive(Clone, Debug)]
pub struct Record {
    pub version: u64,
    pub start: usize,
    /// offset of the first byte after the record
    pub end: usize,
    pub payload_hash: [u8; 32],
    pub op: Result<LogOp, String>,
}

#[derive(Clone, Debug, PartialEq, Eq)]
pub enum Tail {
    /// file ends exactly after the last record
    Clean,
    /// exactly one 44-byte zero marker, then end of file
    Sentinel,
    /// something else follows the last complete record
    Garbage { at: usize, why: String },
}

#[derive(Clone, Debug)]
pub struct Segment {
    pub records: Vec<Record>,
    pub tail: Tail,
}

fn u32_at(b: &[u8], o: usize) -> Option<u32> {
    b.get(o..o + 4).map(|s| u32::from_le_bytes(s.try_into().unwrap()))
}
fn u64_at(b: &[u8], o: usize) -> Option<u64> {
    b.get(o..o + 8).map(|s| u64::from_le_bytes(s.try_into().unwrap()))
}

pub fn decode_op(p: &[u8]) -> Result<LogOp, String> {
    let tag = *p.first().ok_or("empty payload")?;
    match tag {
        0 => {
            let klen = u32_at(p, 1).ok_or("put: short klen")? as usize;
            let key = p.get(5..5 + klen).ok_or("put: short key")?.to_vec();
            let o = 5 + klen;
            let hash: [u8; 32] = p.get(o..o + 32).ok_or("put: short hash")?.try_into().unwrap();
            let size = u64_at(p, o + 32).ok_or("put: short size")?;
            if p.len() != o + 40 {
                return Err(format!("put: {} trailing bytes", p.len() - (o + 40)));
            }
            Ok(LogOp::Put { key, hash, size })
        }
        1 => {
            let n = u32_at(p, 1).ok_or("remove: short count")? as usize;
            let mut o = 5;
            let mut keys = Vec::new();
            for _ in 0..n {
                let klen = u32_at(p, o).ok_or("remove: short klen")? as usize;
                let key = p.get(o + 4..o + 4 + klen).ok_or("remove: short key")?.to_vec();
                o += 4 + klen;
                keys.push(key);
            }
            if p.len() != o {
                return Err(format!("remove: {} trailing bytes", p.len() - o));
            }
            Ok(LogOp::Remove { keys })
        }
        t => Err(format!("unknown tag {t}")),
    }
}

pub fn encode_op(op: &LogOp) -> Vec<u8> {
    let mut v = Vec::new();
    match op {
        LogOp::Put { key, hash, size } => {
            v.push(0);
            v.extend_from_slice(&(key.len() as u32).to_le_bytes());
            v.extend_from_slice(key);
            v.extend_from_slice(hash);
            v.extend_from_slice(&size.to_le_bytes());
        }
        LogOp::Remove { keys } => {
            v.push(1);
            v.extend_from_slice(&(keys.len() as u32).to_le_bytes());
            for k in keys {
                v.extend_from_slice(&(k.len() as u32).to_le_bytes());
                v.extend_from_slice(k);
            }
        }
    }
    v
}

pub fn encode_record(version: u64, payload: &[u8]) -> Vec<u8> {
    let mut v = Vec::with_capacity(HDR + payload.len());
    v.extend_from_slice(&version.to_le_bytes());
    v.extend_from_slice(blake3::hash(payload).as_bytes());
    v.extend_from_slice(&(payload.len() as u32).to_le_bytes());
    v.extend_from_slice(payload);
    v
}

pub fn decode_segment(b: &[u8]) -> Segment {
    let mut records = Vec::new();
    let mut o = 0usize;
    loop {
        if o == b.len() {
            return Segment { records, tail: Tail::Clean };
        }
        if b.len() - o < HDR {
            return Segment { records, tail: Tail::Garbage { at: o, why: format!("{} bytes of partial header", b.len() - o) } };
        }
        let hdr = &b[o..o + HDR];
        if hdr.iter().all(|&x| x == 0) {
            return if o + HDR == b.len() {
                Segment { records, tail: Tail::Sentinel }
            } else {
                Segment { records, tail: Tail::Garbage { at: o + HDR, why: "bytes after the end marker".into() } }
            };
        }
        let version = u64_at(hdr, 0).unwrap();
        let hash: [u8; 32] = hdr[8..40].try_into().unwrap();
        let len = u32_at(hdr, 40).unwrap() as usize;
        if version == 0 {
            return Segment { records, tail: Tail::Garbage { at: o, why: "version 0 header that is not the zero marker".into() } };
        }
        if len == 0 {
            return Segment { records, tail: Tail::Garbage { at: o, why: "zero-length record".into() } };
        }
        let Some(payload) = b.get(o + HDR..o + HDR + len) else {
            return Segment { records, tail: Tail::Garbage { at: o, why: format!("record v{version} payload short: want {len} have {}", b.len() - o - HDR) } };
        };
        if blake3::hash(payload).as_bytes() != &hash {
            return Segment { records, tail: Tail::Garbage { at: o, why: format!("record v{version} checksum mismatch") } };
        }
        records.push(Record { version, start: o, end: o + HDR + len, payload_hash: hash, op: decode_op(payload) });
        o += HDR + len;
    }
}

#[derive(Clone, Debug)]
pub struct Snapshot {
    pub version: u64,
    pub entries: Vec<(Vec<u8>, [u8; 32], u64)>,
}

pub fn decode_snapshot(b: &[u8]) -> Result<Snapshot, String> {
    let version = u64_at(b, 0).ok_or("snapshot: short version")?;
    let n = u32_at(b, 8).ok_or("snapshot: short count")? as usize;
    let mut o = 12;
    let mut entries = Vec::new();
    for i in 0..n {
        let klen = u32_at(b, o).ok_or_else(|| format!("snapshot: short klen at entry {i}"))? as usize;
        let key = b.get(o + 4..o + 4 + klen).ok_or_else(|| format!("snapshot: short key at entry {i}"))?.to_vec();
        o += 4 + klen;
        let hash: [u8; 32] = b.get(o..o + 32).ok_or_else(|| format!("snapshot: short hash at entry {i}"))?.try_into().unwrap();
        let size = u64_at(b, o + 32).ok_or_else(|| format!("snapshot: short size at entry {i}"))?;
        o += 40;
        entries.push((key, hash, size));
    }
    if o != b.len() {
        return Err(format!("snapshot: {} trailing bytes", b.len() - o));
    }
    Ok(Snapshot { version, entries })
}

pub fn encode_snapshot(version: u64, entries: &[(Vec<u8>, [u8; 32], u64)]) -> Vec<u8> {
    let mut v = Vec::new();
    v.extend_from_slice(&version.to_le_bytes());
    v.extend_from_slice(&(entries.len() as u32).to_le_bytes());
    for (k, h, s) in entries {
        v.extend_from_slice(&(k.len() as u32).to_le_bytes());
        v.extend_from_slice(k);
        v.extend_from_slice(h);
        v.extend_from_slice(&s.to_le_bytes());
    }
    v
}

pub fn apply(l: &mut Logged, op: &LogOp) {
    match op {
        LogOp::Put { key, hash, size } => {
            l.insert(key.clone(), (*hash, *size));
        }
        LogOp::Remove { keys } => {
            for k in keys {
                l.remove(k);
            }
        }
    }
}

/// hash -> relative path under cas/ (the checker's own function)
pub fn cas_rel_path(hash: &[u8; 32]) -> String {
    let hex: String = hash.iter().map(|b| format!("{b:02x}")).collect();
    format!("{}/{}/{}", &hex[0..2], &hex[2..4], &hex[4..])
}

/// parse "aa/bb/<60 hex>" back into a hash; None for anything else
pub fn parse_cas_rel_path(rel: &str) -> Option<[u8; 32]> {
    let parts: Vec<&str> = rel.split('/').collect();
    if parts.len() != 3 || parts[0].len() != 2 || parts[1].len() != 2 || parts[2].len() != 60 {
        return None;
    }
    let hex: String = parts.concat();
    let mut out = [0u8; 32];
    for i in 0..32 {
        let s = hex.get(2 * i..2 * i + 2)?;
        // canonical form only: lower-case digits (the form the store itself produces)
        if !s.bytes().all(|c| c.is_ascii_digit() || (b'a'..=b'f').contains(&c)) {
            return None;
        }
        out[i] = u8::from_str_radix(s, 16).ok()?;
    }
    Some(out)
}

pub fn segment_id_of(name: &str) -> Option<u64> {
    let id = name.strip_suffix("_index.wal")?;
    id.parse::<u64>().ok()
}
