//! seed -> concurrent program, per property (DESIGN.md §3 C04 C05 C06 C07 C08 C11 C13 C15).

use crate::case::{COp, Case, ConcSpec, Mode};
use crate::driver::Spec;
use crate::gen::{Cfg, ContentSpec, KeyType, Op, Workload, B, KEY_TYPES};
use crate::props::gen_keys_hex;
use crate::rng::Rng;

pub const CONC_PROPS: [&str; 12] = ["C02", "C04", "C05", "C06", "C07", "C08", "C11", "C13", "C15", "C17", "C19", "C20"];

fn small_sizes(rng: &mut Rng, n: usize, distinct: bool) -> Vec<ContentSpec> {
    let pool = [0usize, 1, 5, 44, 100, 300, 1000, 9000];
    let mut v: Vec<ContentSpec> = Vec::new();
    let mut i = 0;
    while v.len() < n {
        i += 1;
        let mut size = if rng.chance(1, 12) { 9000 } else { pool[rng.below(7) as usize] };
        if distinct {
            while v.iter().any(|c| c.size == size) {
                size += 1;
            }
        }
        v.push(ContentSpec { stream: i, size });
    }
    // at most one empty content (two would be equal bytes)
    let mut seen0 = false;
    for c in v.iter_mut() {
        if c.size == 0 {
            if seen0 {
                c.size = 2;
            }
            seen0 = true;
        }
    }
    v
}

fn base_workload(rng: &mut Rng, nk: usize, contents: Vec<ContentSpec>, pre_puts: usize) -> Workload {
    let key_type: KeyType = *rng.pick(&KEY_TYPES);
    let keys_hex = gen_keys_hex(rng, key_type, nk, false);
    let nk = keys_hex.len();
    let cfg = Cfg { n: *rng.pick(&[1u64, 2, 3, 3, 10_000]), async_mode: false, scan: true, verify: rng.chance(1, 2), fail_on_integrity: false, pre_create: false };
    let mut ops = Vec::new();
    for _ in 0..pre_puts {
        let c = rng.below(contents.len() as u64) as usize;
        ops.push(Op::Put { k: rng.below(nk as u64) as usize, c, chunks: vec![contents[c].size], abort: false });
    }
    Workload { key_type, keys_hex, content_seed: rng.next(), contents, cfg, ops }
}

fn writer_op(rng: &mut Rng, nk: usize, nc: usize, sizes: &[usize], hot_key: usize, hot_content: usize, with_ckpt: bool) -> COp {
    let k = if rng.chance(1, 2) { hot_key } else { rng.below(nk as u64) as usize };
    match rng.below(10) {
        0..=4 => {
            let c = if rng.chance(1, 2) { hot_content } else { rng.below(nc as u64) as usize };
            let chunks = if sizes[c] > 1 && rng.chance(1, 3) { vec![sizes[c] / 2, sizes[c] - sizes[c] / 2] } else { vec![sizes[c]] };
            COp::Put { k, c, chunks, abort: false }
        }
        5 | 6 => COp::Remove { k },
        7 => {
            let (lo, hi) = crate::gen::gen_bound_pair(rng, nk);
            COp::RemoveRange { lo, hi }
        }
        8 if with_ckpt => COp::Checkpoint,
        _ => COp::Remove { k: rng.below(nk as u64) as usize },
    }
}

fn reader_op(rng: &mut Rng, k: usize, l: u64) -> COp {
    match rng.below(5) {
        0 | 1 => COp::Get { k },
        2 => COp::GetSize { k },
        3 => {
            let (s, e) = crate::gen::gen_range_bounds(rng, l);
            let (s, e) = (s.min(e), s.max(e));
            COp::GetRange { k, start: s, end: e }
        }
        _ => COp::Reader { k },
    }
}

pub fn gen_case(prop: &str, seed: u64, tier: &str, _run: u64) -> Case {
    let mut rng = Rng::new(seed);
    let thorough = tier == "thorough";
    // thorough: 10x the programs at 2x the schedules each (20x the executions of the quick tier)
    let schedules = if thorough { 300 } else { 150 };
    let sseed = rng.next();
    // C11: one third of the programs race on a directory that does not exist yet
    let fresh_dir = (prop == "C11" && Rng::new(seed ^ 0x11).chance(1, 3)) || (prop == "C19" && Rng::new(seed ^ 0x19).chance(3, 4));
    let (workload, tasks, orphans, shared_handle) = match prop {
        "C05" | "C06" | "C17" => {
            // readers against overwriting / removing writers on the same key; every written value unique
            let n_writes = 2 + rng.below(3) as usize;
            let contents = small_sizes(&mut rng, n_writes + 1, true);
            let mut wl = base_workload(&mut rng, 2, contents, 0);
            let nk = wl.keys_hex.len();
            let hot = rng.below(nk as u64) as usize;
            // pre-state: the hot key holds content 0 (most of the time)
            if rng.chance(4, 5) {
                wl.ops.push(Op::Put { k: hot, c: 0, chunks: vec![wl.contents[0].size], abort: false });
            }
            let sizes: Vec<usize> = wl.contents.iter().map(|c| c.size).collect();
            let n_tasks = 2 + rng.below(3) as usize;
            // one program in four lets writers store an already-used value again (otherwise every
            // written value is unique)
            let reuse_values = rng.chance(1, 4);
            let mut tasks: Vec<Vec<COp>> = vec![Vec::new(); n_tasks];
            let mut next_content = 1;
            let mut budget = 9;
            for t in 0..n_tasks {
                let is_writer = t == 0 || (t > 1 && rng.chance(1, 3));
                let n_ops = 1 + rng.below(3) as usize;
                for _ in 0..n_ops {
                    if budget == 0 {
                        break;
                    }
                    budget -= 1;
                    let k = if rng.chance(4, 5) { hot } else { rng.below(nk as u64) as usize };
                    if is_writer {
                        if reuse_values && rng.chance(1, 3) {
                            // write a value that is (or was) already stored: its blob may be on its
                            // way out while this put commits (reads stay attributable by content)
                            let c = rng.below(next_content.max(1) as u64) as usize;
                            tasks[t].push(COp::Put { k, c, chunks: vec![sizes[c]], abort: false });
                        } else if next_content < sizes.len() && rng.chance(2, 3) {
                            tasks[t].push(COp::Put { k, c: next_content, chunks: vec![sizes[next_content]], abort: false });
                            next_content += 1;
                        } else if rng.chance(1, 5) {
                            tasks[t].push(COp::RemoveRange { lo: B::U, hi: B::U });
                        } else {
                            tasks[t].push(COp::Remove { k });
                        }
                    } else {
                        let op = if prop == "C06" && rng.chance(1, 2) {
                            COp::Reader { k }
                        } else if prop == "C17" {
                            // range reads (mostly with huge ends) racing overwrites that change the length
                            let l = sizes[rng.below(sizes.len() as u64) as usize] as u64;
                            let (s, e) = crate::gen::gen_range_bounds(&mut rng, l);
                            let (s, e) = (s.min(e), s.max(e));
                            COp::GetRange { k, start: if rng.chance(1, 2) { 0 } else { s.min(l) }, end: if rng.chance(1, 2) { u64::MAX } else { e } }
                        } else {
                            reader_op(&mut rng, k, sizes[0] as u64)
                        };
                        tasks[t].push(op);
                    }
                }
            }
            tasks.retain(|t| !t.is_empty());
            (wl, tasks, vec![], true)
        }
        "C13" => {
            // A opens a transaction on k and abandons it while B commits on k and C removes a key sharing content
            let contents = small_sizes(&mut rng, 3, false);
            let mut wl = base_workload(&mut rng, 3, contents, 0);
            let nk = wl.keys_hex.len();
            let k = rng.below(nk as u64) as usize;
            let k2 = (k + 1) % nk;
            let sizes: Vec<usize> = wl.contents.iter().map(|c| c.size).collect();
            if rng.chance(1, 2) {
                wl.ops.push(Op::Put { k, c: 0, chunks: vec![sizes[0]], abort: false });
            }
            wl.ops.push(Op::Put { k: k2, c: 1, chunks: vec![sizes[1]], abort: false });
            let abort_c = *rng.pick(&[0usize, 1, 2]);
            let a = vec![COp::Put { k, c: abort_c, chunks: vec![sizes[abort_c] / 2, sizes[abort_c] - sizes[abort_c] / 2], abort: true }];
            let bc = *rng.pick(&[1usize, 2]);
            let mut b = vec![COp::Put { k, c: bc, chunks: vec![sizes[bc]], abort: false }];
            if rng.chance(1, 3) {
                b.push(COp::Get { k });
            }
            let c = vec![if rng.chance(2, 3) { COp::Remove { k: k2 } } else { COp::Put { k: k2, c: 2, chunks: vec![sizes[2]], abort: rng.chance(1, 2) } }];
            let mut tasks = vec![a, b, c];
            if rng.chance(1, 3) {
                tasks.push(vec![COp::Put { k, c: 1, chunks: vec![sizes[1]], abort: true }]);
            }
            (wl, tasks, vec![], true)
        }
        "C08" => {
            // clean-up of planted orphans racing puts of the orphaned content (same key from two tasks too) and removes
            let contents = small_sizes(&mut rng, 3, false);
            let pre = rng.below(3) as usize;
            let wl = base_workload(&mut rng, 3, contents, pre);
            let nk = wl.keys_hex.len();
            let sizes: Vec<usize> = wl.contents.iter().map(|c| c.size).collect();
            let orphan_c = rng.below(3) as usize;
            let mut orphans = vec![orphan_c];
            if rng.chance(1, 3) {
                orphans.push((orphan_c + 1) % 3);
            }
            let cleanup = match rng.below(3) {
                0 => COp::DeleteOrphans,
                1 => COp::Quarantine,
                _ => COp::DeleteOrphan { c: orphan_c },
            };
            let k = rng.below(nk as u64) as usize;
            let mut tasks = vec![vec![cleanup], vec![COp::Put { k, c: orphan_c, chunks: vec![sizes[orphan_c]], abort: false }]];
            if rng.chance(1, 2) {
                // a second writer on the same key (the intents table is keyed by key)
                let c2 = rng.below(3) as usize;
                tasks.push(vec![COp::Put { k, c: c2, chunks: vec![sizes[c2]], abort: false }]);
            }
            if rng.chance(1, 2) {
                tasks.push(vec![COp::Remove { k: rng.below(nk as u64) as usize }]);
            }
            if rng.chance(1, 4) {
                tasks[0].push(COp::DeleteOrphans);
            }
            (wl, tasks, orphans, true)
        }
        "C11" | "C19" => {
            let contents = small_sizes(&mut rng, 2, false);
            let pre = rng.below(3) as usize;
            let wl = base_workload(&mut rng, 2, contents, pre);
            let n_tasks = 2 + rng.below(3) as usize;
            let mut tasks = Vec::new();
            for _ in 0..n_tasks {
                // C19: the tasks disagree about the creation-time segment size
                let n = if prop == "C19" { *rng.pick(&[0u64, 0, 17, 23]) } else { 0 };
                let mut t = vec![COp::OpenHold { hold: rng.below(3) as u32, keep_clone: rng.chance(1, 3), recover: rng.chance(1, 2), n }];
                if rng.chance(1, 3) {
                    t.push(COp::OpenHold { hold: 0, keep_clone: false, recover: false, n });
                }
                tasks.push(t);
            }
            (wl, tasks, vec![], false)
        }
        // C04, C07, C15: writers (and for C15 the full call mix)
        _ => {
            let contents = small_sizes(&mut rng, 3, false);
            let pre = 1 + rng.below(3) as usize;
            let wl = base_workload(&mut rng, 3, contents, pre);
            let nk = wl.keys_hex.len();
            let sizes: Vec<usize> = wl.contents.iter().map(|c| c.size).collect();
            let hot_key = rng.below(nk as u64) as usize;
            let hot_content = rng.below(3) as usize;
            let n_tasks = 2 + rng.below(3) as usize;
            let mut tasks: Vec<Vec<COp>> = Vec::new();
            let mut orphans = Vec::new();
            let with_cleanup = rng.chance(1, 4);
            if with_cleanup {
                orphans.push(rng.below(3) as usize);
            }
            let mut budget = if prop == "C15" { 12 } else { 8 };
            for t in 0..n_tasks {
                let n_ops = 1 + rng.below(3) as usize;
                let mut ops = Vec::new();
                for _ in 0..n_ops {
                    if budget == 0 {
                        break;
                    }
                    budget -= 1;
                    if prop == "C15" && rng.chance(1, 3) {
                        ops.push(if rng.chance(1, 3) { COp::Iter } else { reader_op(&mut rng, hot_key, sizes[hot_content] as u64) });
                    } else if with_cleanup && t == n_tasks - 1 {
                        ops.push(if rng.chance(1, 2) { COp::DeleteOrphans } else { COp::DeleteOrphan { c: orphans[0] } });
                    } else {
                        ops.push(writer_op(&mut rng, nk, 3, &sizes, hot_key, hot_content, true));
                    }
                }
                if !ops.is_empty() {
                    tasks.push(ops);
                }
            }
            (wl, tasks, orphans, true)
        }
    };
    Case {
        property: prop.to_string(),
        workload,
        noise: None,
        mode: Mode::Conc(ConcSpec { tasks, orphans, shared_handle, schedules, sseed, replay: None, strategy: None, fresh_dir }),
    }
}

pub fn spec(prop: &str) -> Option<Spec> {
    let s = |id, level, q, t, rule| Some(Spec { id, build: "conc", level, quick_runs: q, thorough_runs: t, rule });
    match prop {
        "C02" => s("C02", "exploration", 250, 2500, "concurrent part: C04-style programs (commits, removes, explicit and roll-over checkpoints racing each other, N in {1,2,3,10000}); at the end of every error-free schedule the store is closed normally and what an independent decode of snapshot (+) log yields must equal the index the API showed: a clean restart changes nothing also after a concurrent history"),
        "C20" => s("C20", "exploration", 250, 2500, "concurrent part: the same programs with the on-disk monitors as the property's own oracles at every step (complete records, strictly increasing versions, segment ranges, snapshot complete, acknowledged versions present) and, at quiescence, snapshot (+) log decoded independently == the index the API shows"),
        "C04" => s("C04", "exploration", 400, 4000, "seeded programs of 2-4 tasks x 1-3 writer operations (puts biased to the same key / same content, removes, range removes, checkpoints, orphan clean-up) over 3 keys / 3 contents with a pre-history that leaves shared blobs, N in {1,2,3,10000}; 150 (quick) / 300 (thorough) seeded schedules per program under uniform / sticky / PCT / targeted strategies; MON-no-dangling after every step + end-state readable + linearizable; evaluation = one schedule; distinct = distinct (context-switch sequence, final state) fingerprints"),
        "C05" => s("C05", "exploration", 400, 4000, "programs of 2-4 tasks, <= 9 operations, <= 2 keys, every written value unique and of distinct size; readers (get/get_size/get_range/get_reader) against overwriting and removing writers on the hot key; invoke/response stamped by the scheduler's step counter; every read must be Ok and attributable; Wing-Gong search against the map model with two-point remove/remove_range; evaluation = one schedule"),
        "C06" => s("C06", "exploration", 300, 3000, "concurrent part: long-lived readers (first byte read, then drained after further scheduling points) against overwriting / removing writers of the same key; bytes must be one written content in full; MON-cas-immutable at every step"),
        "C07" => s("C07", "exploration", 300, 3000, "concurrent part: at the end of every error-free schedule of C04-style programs the files under cas/ are exactly the referenced blobs (plus planted orphans no clean-up removed) and staging/ is empty"),
        "C08" => s("C08", "exploration", 400, 4000, "concurrent part: delete_orphans / quarantine_orphans / delete_orphan racing puts of the orphaned content (also two writers on one key) and removes; MON-no-dangling + end-state readable: a blob that a put committed is never removed by clean-up"),
        "C11" => s("C11", "exploration", 300, 3000, "threads part: 2-4 tasks race open / open_with_recover on one directory (fresh or populated), hold the handle for 0-2 operations, keep clones / OrphanStats past the drop, reopen; at most one live handle; a losing open fails with AlreadyOpened and its slice of the call trace has no mutating call except opening LOCK; a final open succeeds"),
        "C13" => s("C13", "exploration", 300, 3000, "concurrent part: a transaction on key k abandoned at a scheduler-chosen point while another task commits on k and a third removes a key sharing content; final state is what the committing tasks alone produce (linearizable with the aborted put as a no-op), staging empty"),
        "C17" => s("C17", "exploration", 250, 2500, "concurrent part: get_range (start 0 or random, end 2^64-1 or random) racing overwrites of the same key with values of different, pairwise distinct lengths; the bytes returned must be the [min(start,L), min(end,L)) slice of one value the key held (a length taken from one value and bytes from another is the violation)"),
        "C19" => s("C19", "exploration", 250, 2500, "concurrent part: 2-4 tasks race first opens of a directory that does not exist yet (3 of 4 programs) with different num_ops_per_wal; the first successful open fixes the creation value; afterwards every open with that value must succeed, any other value must be rejected with the validation error - also by the final opens after all tasks are gone"),
        "C15" => s("C15", "exploration", 400, 4000, "programs with the full call mix (puts, reads incl. iteration, removes, range removes, explicit checkpoints, roll-over checkpoints via N in {1,2,3}, orphan clean-up); every execution must end with all tasks finished: shuttle's 'no runnable task' = deadlock, > 30000 scheduling steps = hang; the held->acquired lock graph is reported in the evidence"),
        _ => None,
    }
}
