//! Concurrent build (DESIGN.md §2.4, C04 C05 C06 C07 C08 C11 C13 C15): caller threads are shuttle
//! coroutines; every shim lock operation and every intercepted libc call is a scheduling point
//! decided by the seeded scheduler below.

use std::cell::{Cell, RefCell};
use std::collections::{BTreeMap, BTreeSet, HashMap};
use std::io::Read;
use std::ops::Bound;
use std::panic::{catch_unwind, AssertUnwindSafe};
use std::sync::{Arc, Mutex as StdMutex};

use cassadilia::{Cas, LibError, OrphanStats};
use shuttle::scheduler::{Schedule, Scheduler, Task, TaskId};

use crate::case::{COp, Case, ConcSpec, Mode, Outcome};
use crate::decode;
use crate::driver::KnownFinding;
use crate::exec::{fail, panic_msg, to_config, Failure, World};
use crate::gen::{Workload, B};
use crate::interpose::{self, with_sim};
use crate::keys::SimKey;
use crate::rng::{mix, Rng};
use crate::seqrun::{fresh_dir, remove_dir};
use crate::sim::{Disk, FileNode, Sim};

pub const STEP_BUDGET: u64 = 30_000;
/// locks created by one `Index::load`, in creation order: state (RwLock), wal, pending_intents,
/// inflight_blobs. Only used to *name* locks in the evidence and for the targeted strategy's hot
/// list; a change in the number of locks shifts the labels, never a verdict.
const LOCKS_PER_INDEX: usize = 4;
pub const DEFAULT: u32 = u32::MAX;

thread_local! {
    static CUR_TASK: Cell<u32> = const { Cell::new(0) };
    static STAMP: Cell<u64> = const { Cell::new(0) };
    static IN_EXEC: Cell<bool> = const { Cell::new(false) };
    static HOT: Cell<bool> = const { Cell::new(false) };
    static ACTIVE_SAVED: RefCell<HashMap<u32, bool>> = RefCell::new(HashMap::new());
    static HELD: RefCell<HashMap<u32, Vec<usize>>> = RefCell::new(HashMap::new());
    static LOCK_EDGES: RefCell<BTreeSet<(usize, usize)>> = RefCell::new(BTreeSet::new());
    static SWITCH_FP: Cell<u64> = const { Cell::new(0) };
}

/// Is this failure a violation of the property under check? C08's last sentence ("never removes a
/// blob that is referenced or that a concurrent put of the same content is committing") is observed
/// by the same oracles as C04 (dangling reference), so in C08's programs - which always contain a
/// clean-up call - those count as C08's own.
fn is_own(prop: &str, f: &Failure) -> bool {
    f.props.iter().any(|p| p == prop) || (prop == "C08" && f.props.iter().any(|p| p == "C04"))
}

pub fn is_conc_case(case: &Case) -> bool {
    matches!(case.mode, Mode::Conc(_))
}

fn stamp() -> u64 {
    STAMP.with(|s| {
        s.set(s.get() + 1);
        s.get()
    })
}

/// called by the interposer before every simulated libc call
pub fn sched_point() {
    if IN_EXEC.with(|c| c.get()) {
        shuttle::thread::yield_now();
        let t = CUR_TASK.with(|c| c.get());
        interpose::bypass(|| {
            let _ = std::panic::catch_unwind(|| with_sim(|s| s.cur_task = t));
        });
    }
}

fn lock_observer(op: parking_lot::LockOp, _kind: parking_lot::LockKind, id: usize) {
    let t = CUR_TASK.with(|c| c.get());
    match op {
        parking_lot::LockOp::Acquire => {
            HELD.with(|h| {
                let h = h.borrow();
                if let Some(held) = h.get(&t) {
                    LOCK_EDGES.with(|e| {
                        let mut e = e.borrow_mut();
                        for &a in held {
                            e.insert((a, id));
                        }
                    });
                }
            });
        }
        parking_lot::LockOp::Acquired => {
            HELD.with(|h| h.borrow_mut().entry(t).or_default().push(id));
            // the three index locks are created in the order state=0, wal=1, intents=2
            if id % LOCKS_PER_INDEX == 2 {
                HOT.with(|c| c.set(true));
            }
        }
        parking_lot::LockOp::Released => {
            HELD.with(|h| {
                if let Some(v) = h.borrow_mut().get_mut(&t) {
                    if let Some(p) = v.iter().rposition(|&x| x == id) {
                        v.remove(p);
                    }
                }
            });
            HOT.with(|c| c.set(true));
        }
    }
}

// ---------------------------------------------------------------------------------------------
// scheduler

#[derive(Clone, Debug, PartialEq)]
enum Strategy {
    Uniform,
    Sticky(u32),
    Pct(u32),
    Targeted,
}

struct SchedShared {
    sseed: u64,
    iteration: u32,
    total: u32,
    rng: Rng,
    strategy: Strategy,
    choices: Vec<u32>,
    replay: Option<Vec<u32>>,
    steps: u64,
    preemptions: u64,
    hang: bool,
    /// schedule (choices, strategy) of the execution that was stopped because of a hang
    hang_record: Option<(Vec<u32>, String)>,
    prio: HashMap<u32, u64>,
    change_points: Vec<u64>,
    total_steps: u64,
    total_preemptions: u64,
    strategy_counts: BTreeMap<String, u64>,
}

struct CasimScheduler(Arc<StdMutex<SchedShared>>);

impl Scheduler for CasimScheduler {
    fn new_execution(&mut self) -> Option<Schedule> {
        let mut s = self.0.lock().unwrap();
        if s.hang && s.hang_record.is_none() {
            let rec = (s.choices.clone(), format!("{:?}", s.strategy));
            s.hang_record = Some(rec);
        }
        if s.iteration >= s.total || s.hang_record.is_some() {
            return None;
        }
        let it = s.iteration;
        s.iteration += 1;
        s.rng = Rng::new(mix(s.sseed, it as u64));
        s.strategy = match s.rng.below(8) {
            0 => Strategy::Uniform,
            1 => Strategy::Sticky(500),
            2 => Strategy::Sticky(800),
            3 => Strategy::Sticky(950),
            4 => Strategy::Pct(1 + s.rng.below(3) as u32),
            5 => Strategy::Pct(2),
            _ => Strategy::Targeted,
        };
        let name = format!("{:?}", s.strategy);
        *s.strategy_counts.entry(name).or_insert(0) += 1;
        s.choices.clear();
        s.steps = 0;
        s.preemptions = 0;
        s.hang = false;
        s.prio.clear();
        let d = if let Strategy::Pct(d) = s.strategy { d } else { 0 };
        s.change_points = (0..d).map(|_| s.rng.below(400)).collect();
        ACTIVE_SAVED.with(|a| a.borrow_mut().clear());
        interpose::set_active(false);
        HELD.with(|h| h.borrow_mut().clear());
        CUR_TASK.with(|c| c.set(0));
        STAMP.with(|c| c.set(0));
        SWITCH_FP.with(|c| c.set(0));
        Some(Schedule::new(mix(s.sseed, it as u64)))
    }

    fn next_task(&mut self, runnable: &[&Task], current: Option<TaskId>, _is_yielding: bool) -> Option<TaskId> {
        let mut s = self.0.lock().unwrap();
        let ids: Vec<u32> = runnable.iter().map(|t| usize::from(t.id()) as u32).collect();
        let cur = current.map(|c| usize::from(c) as u32);
        let cur_runnable = cur.is_some_and(|c| ids.contains(&c));
        s.steps += 1;
        let idx = (s.steps - 1) as usize;
        let fallback = if cur_runnable { cur.unwrap() } else { *ids.iter().min().unwrap() };
        let hot = HOT.with(|c| c.replace(false));
        if s.steps > STEP_BUDGET {
            // a livelock never ends by itself (seeded change C15-e: a reader re-trying a stale blob
            // forever): the execution is abandoned and run_case_k turns the flag into the verdict
            // (not by a panic: the yield that got us here may sit inside an interposed libc call, and
            // a panic cannot cross that `extern "C"` frame) - by asking shuttle to stop the execution
            s.hang = true;
            return None;
        }
        let choice = if let Some(rp) = &s.replay {
            match rp.get(idx) {
                Some(&c) if c != DEFAULT && ids.contains(&c) => c,
                _ => fallback,
            }
        } else {
            match s.strategy.clone() {
                Strategy::Uniform => ids[s.rng.below(ids.len() as u64) as usize],
                Strategy::Sticky(p) => {
                    if cur_runnable && s.rng.below(1000) < p as u64 {
                        cur.unwrap()
                    } else {
                        ids[s.rng.below(ids.len() as u64) as usize]
                    }
                }
                Strategy::Targeted => {
                    let stay = if hot { 500 } else { 970 };
                    if cur_runnable && s.rng.below(1000) < stay {
                        cur.unwrap()
                    } else {
                        ids[s.rng.below(ids.len() as u64) as usize]
                    }
                }
                Strategy::Pct(_) => {
                    let step = s.steps;
                    if s.change_points.contains(&step) {
                        if let Some(c) = cur {
                            let low = s.prio.values().copied().min().unwrap_or(1 << 32).saturating_sub(1);
                            s.prio.insert(c, low);
                        }
                    }
                    for id in &ids {
                        if !s.prio.contains_key(id) {
                            let p = (1 << 32) + s.rng.below(1 << 20);
                            s.prio.insert(*id, p);
                        }
                    }
                    *ids.iter().max_by_key(|id| s.prio[id]).unwrap()
                }
            }
        };
        s.choices.push(choice);
        if cur_runnable && Some(choice) != cur {
            s.preemptions += 1;
            s.total_preemptions += 1;
        }
        s.total_steps += 1;
        // per-task ACTIVE flag: save the outgoing task's, restore the incoming task's
        if let Some(c) = cur {
            let a = interpose::get_active();
            ACTIVE_SAVED.with(|m| m.borrow_mut().insert(c, a));
        }
        if cur != Some(choice) {
            let a = ACTIVE_SAVED.with(|m| m.borrow().get(&choice).copied().unwrap_or(false));
            interpose::set_active(a);
            SWITCH_FP.with(|f| f.set(mix(f.get(), mix(choice as u64, s.steps))));
        }
        CUR_TASK.with(|c| c.set(choice));
        Some(TaskId::from(choice as usize))
    }

    fn next_u64(&mut self) -> u64 {
        self.0.lock().unwrap().rng.next()
    }
}

// ---------------------------------------------------------------------------------------------
// history + linearizability

#[derive(Clone, Debug)]
enum HRes {
    PutOk,
    Aborted,
    Removed(bool),
    RangeRemoved(usize),
    /// content index observed (None = absent); for size/range reads the candidates that match
    Read(Vec<Option<usize>>),
    Other,
}

#[derive(Clone, Debug)]
struct HEv {
    task: u32,
    op: COp,
    inv: u64,
    resp: u64,
    res: HRes,
}

type MState = BTreeMap<usize, usize>; // key index -> content index

fn in_range(lo: B, hi: B, k: usize) -> bool {
    (match lo {
        B::U => true,
        B::I(a) => k >= a,
        B::E(a) => k > a,
    }) && (match hi {
        B::U => true,
        B::I(b) => k <= b,
        B::E(b) => k < b,
    })
}

/// sub-events: (event index, phase). phase 0 = the op (or its observe step), phase 1 = apply step
#[derive(Clone)]
struct LinSearch<'a> {
    evs: &'a [HEv],
    /// same-content classes: reads identify contents by bytes, so equal bytes = equal content
    same: &'a dyn Fn(usize, usize) -> bool,
    final_state: &'a MState,
    seen: BTreeSet<(u64, Vec<(usize, usize)>, Vec<(usize, Vec<usize>)>)>,
    budget: u64,
}

impl LinSearch<'_> {
    fn phases(e: &HEv) -> u32 {
        match (&e.op, &e.res) {
            (COp::Remove { .. }, HRes::Removed(true)) => 2,
            (COp::RemoveRange { .. }, HRes::RangeRemoved(n)) if *n > 0 => 2,
            _ => 1,
        }
    }

    fn search(&mut self, done: &mut Vec<u32>, state: &mut MState, pending: &mut BTreeMap<usize, Vec<usize>>) -> bool {
        if self.budget == 0 {
            return true; // inconclusive: never report a violation we could not establish
        }
        self.budget -= 1;
        let n = self.evs.len();
        if (0..n).all(|i| done[i] == Self::phases(&self.evs[i])) {
            return self.same_state(state);
        }
        let key = (
            done.iter().enumerate().fold(0u64, |a, (i, d)| a | ((*d as u64) << (2 * i))),
            state.iter().map(|(k, v)| (*k, *v)).collect::<Vec<_>>(),
            pending.iter().map(|(k, v)| (*k, v.clone())).collect::<Vec<_>>(),
        );
        if !self.seen.insert(key) {
            return false;
        }
        // an event may be linearised next only if every event that responded before its invocation is complete
        let min_open_resp = (0..n).filter(|&i| done[i] < Self::phases(&self.evs[i])).map(|i| self.evs[i].resp).min().unwrap();
        for i in 0..n {
            let e = &self.evs[i];
            let ph = Self::phases(e);
            if done[i] >= ph || e.inv > min_open_resp {
                continue;
            }
            let phase = done[i];
            let mut st2 = state.clone();
            let mut pend2 = pending.clone();
            let ok = match (&e.op, &e.res, phase) {
                (COp::Put { k, c, .. }, HRes::PutOk, _) => {
                    st2.insert(*k, *c);
                    true
                }
                (COp::Put { .. }, _, _) => true,
                (COp::Remove { k }, HRes::Removed(r), 0) => {
                    if st2.contains_key(k) == *r {
                        if *r {
                            pend2.insert(i, vec![*k]);
                        }
                        true
                    } else {
                        false
                    }
                }
                (COp::RemoveRange { lo, hi }, HRes::RangeRemoved(cnt), 0) => {
                    let ks: Vec<usize> = st2.keys().copied().filter(|k| in_range(*lo, *hi, *k)).collect();
                    if ks.len() == *cnt {
                        if *cnt > 0 {
                            pend2.insert(i, ks);
                        }
                        true
                    } else {
                        false
                    }
                }
                (COp::Remove { .. } | COp::RemoveRange { .. }, _, 1) => {
                    if let Some(ks) = pend2.remove(&i) {
                        for k in ks {
                            st2.remove(&k);
                        }
                    }
                    true
                }
                (COp::Get { k } | COp::GetSize { k } | COp::GetRange { k, .. } | COp::Reader { k }, HRes::Read(cands), _) => {
                    let cur = st2.get(k).copied();
                    cands.iter().any(|c| match (c, cur) {
                        (None, None) => true,
                        (Some(a), Some(b)) => (self.same)(*a, b),
                        _ => false,
                    })
                }
                _ => true,
            };
            if !ok {
                continue;
            }
            done[i] += 1;
            let r = self.search(done, &mut st2, &mut pend2);
            done[i] -= 1;
            if r {
                return true;
            }
        }
        false
    }

    fn same_state(&self, st: &MState) -> bool {
        st.len() == self.final_state.len() && st.iter().all(|(k, c)| self.final_state.get(k).is_some_and(|f| (self.same)(*c, *f)))
    }
}

// ---------------------------------------------------------------------------------------------
// execution of one schedule

/// verdict of an execution that ended because an operation panicked inside a task
static PANIC_FAIL: StdMutex<Option<Failure>> = StdMutex::new(None);

struct Shared<K: SimKey> {
    keys: Vec<K>,
    contents: Vec<Arc<Vec<u8>>>,
    hashes: Vec<[u8; 32]>,
    hist: StdMutex<Vec<HEv>>,
    failure: StdMutex<Option<Failure>>,
    live_handles: StdMutex<i32>,
    /// num_ops_per_wal the directory was created with (None until the first open of a fresh one)
    created_n: StdMutex<Option<u64>>,
    /// an operation itself failed or panicked (C07 speaks of error-free programs only)
    op_errors: std::sync::atomic::AtomicBool,
    prop: String,
}

impl<K: SimKey> Shared<K> {
    fn flag(&self, f: Failure) {
        if matches!(f.class.as_str(), "write-failed" | "panic" | "cleanup-failed" | "cleanup-errors" | "task-died") {
            self.op_errors.store(true, std::sync::atomic::Ordering::Relaxed);
        }
        let mut g = self.failure.lock().unwrap();
        // prefer a failure of the property under check
        let own = |f: &Failure| is_own(&self.prop, f);
        match &*g {
            None => *g = Some(f),
            Some(old) if !own(old) && own(&f) => *g = Some(f),
            _ => {}
        }
    }
    fn content_of(&self, bytes: &[u8]) -> Option<usize> {
        self.contents.iter().position(|c| c.as_slice() == bytes)
    }
}

fn bound<K: Clone>(keys: &[K], b: B) -> Bound<K> {
    match b {
        B::U => Bound::Unbounded,
        B::I(i) => Bound::Included(keys[i].clone()),
        B::E(i) => Bound::Excluded(keys[i].clone()),
    }
}

fn exec_cop<K: SimKey>(sh: &Shared<K>, cas: &Cas<K>, stats: Option<&OrphanStats<K>>, qdir: &std::path::Path, task: u32, opi: usize, op: &COp) {
    let label = format!("task {task} op#{opi} {}", op.short());
    let inv = stamp();
    let r = catch_unwind(AssertUnwindSafe(|| -> HRes {
        interpose::enter(|| match op {
            COp::Put { k, c, chunks, abort } => {
                let data = &sh.contents[*c];
                let mut tx = match cas.put(sh.keys[*k].clone()) {
                    Ok(t) => t,
                    Err(e) => {
                        sh.flag(fail(&["C05", "C04", "C15"], "write-failed", opi, format!("{label}: put() failed without any injected fault: {e}")));
                        return HRes::Other;
                    }
                };
                let mut off = 0;
                for &n in chunks {
                    if let Err(e) = tx.write(&data[off..off + n]) {
                        sh.flag(fail(&["C05", "C04"], "write-failed", opi, format!("{label}: write() failed: {e}")));
                        return HRes::Other;
                    }
                    off += n;
                }
                if *abort {
                    drop(tx);
                    HRes::Aborted
                } else {
                    match tx.finish() {
                        Ok(()) => HRes::PutOk,
                        Err(e) => {
                            sh.flag(fail(&["C05", "C04"], "write-failed", opi, format!("{label}: finish() failed without any injected fault: {e} ({e:?})")));
                            HRes::Other
                        }
                    }
                }
            }
            COp::Remove { k } => match cas.remove(&sh.keys[*k]) {
                Ok(b) => HRes::Removed(b),
                Err(e) => {
                    sh.flag(fail(&["C05", "C04"], "write-failed", opi, format!("{label}: remove failed: {e}")));
                    HRes::Other
                }
            },
            COp::RemoveRange { lo, hi } => match cas.remove_range((bound(&sh.keys, *lo), bound(&sh.keys, *hi))) {
                Ok(n) => HRes::RangeRemoved(n),
                Err(e) => {
                    sh.flag(fail(&["C05", "C04"], "write-failed", opi, format!("{label}: remove_range failed: {e}")));
                    HRes::Other
                }
            },
            COp::Get { k } => match cas.get(&sh.keys[*k]) {
                Ok(None) => HRes::Read(vec![None]),
                Ok(Some(b)) => match sh.content_of(&b) {
                    Some(c) => HRes::Read(vec![Some(c)]),
                    None => {
                        sh.flag(fail(&["C05", "C06"], "read-mixed-bytes", opi, format!("{label}: returned {} bytes that equal no content ever written", b.len())));
                        HRes::Other
                    }
                },
                Err(e) => {
                    sh.flag(fail(&["C05"], "read-failed", opi, format!("{label}: a read failed while racing writers: {e}")));
                    HRes::Other
                }
            },
            COp::GetSize { k } => match cas.get_size(&sh.keys[*k]) {
                Ok(None) => HRes::Read(vec![None]),
                Ok(Some(sz)) => {
                    let c: Vec<Option<usize>> = sh.contents.iter().enumerate().filter(|(_, c)| c.len() as u64 == sz).map(|(i, _)| Some(i)).collect();
                    if c.is_empty() {
                        sh.flag(fail(&["C05"], "read-mixed-bytes", opi, format!("{label}: size {sz} is the length of no content ever written")));
                        HRes::Other
                    } else {
                        HRes::Read(c)
                    }
                }
                Err(e) => {
                    sh.flag(fail(&["C05"], "read-failed", opi, format!("{label}: get_size failed: {e}")));
                    HRes::Other
                }
            },
            COp::GetRange { k, start, end } => match cas.get_range(&sh.keys[*k], *start, *end) {
                Ok(None) => HRes::Read(vec![None]),
                Ok(Some(b)) => {
                    let c: Vec<Option<usize>> = sh
                        .contents
                        .iter()
                        .enumerate()
                        .filter(|(_, c)| {
                            let l = c.len() as u64;
                            *start <= *end && c[(*start).min(l) as usize..(*end).min(l) as usize] == b[..]
                        })
                        .map(|(i, _)| Some(i))
                        .collect();
                    if c.is_empty() {
                        sh.flag(fail(&["C05", "C17"], "read-mixed-bytes", opi, format!("{label}: returned {} bytes that are the [{start},{end}) slice of no content ever written", b.len())));
                        HRes::Other
                    } else {
                        HRes::Read(c)
                    }
                }
                Err(e) => {
                    sh.flag(fail(&["C05"], "read-failed", opi, format!("{label}: get_range failed while racing writers: {e}")));
                    HRes::Other
                }
            },
            COp::Reader { k } => match cas.get_reader(&sh.keys[*k]) {
                Ok(None) => HRes::Read(vec![None]),
                Ok(Some(mut r)) => {
                    // drain later (after the response stamp): a reader keeps streaming the complete original content
                    let mut buf = Vec::new();
                    // first byte now, rest after further scheduling points
                    let mut one = [0u8; 1];
                    let first = r.read(&mut one).unwrap_or(0);
                    buf.extend_from_slice(&one[..first]);
                    shuttle::thread::yield_now();
                    let res = r.read_to_end(&mut buf);
                    match (res, sh.content_of(&buf)) {
                        (Ok(_), Some(c)) => HRes::Read(vec![Some(c)]),
                        (Ok(_), None) => {
                            sh.flag(fail(&["C06", "C05"], "reader-bytes", opi, format!("{label}: reader streamed {} bytes that equal no content ever written", buf.len())));
                            HRes::Other
                        }
                        (Err(e), _) => {
                            sh.flag(fail(&["C06", "C05"], "reader-error", opi, format!("{label}: reader failed: {e}")));
                            HRes::Other
                        }
                    }
                }
                Err(e) => {
                    sh.flag(fail(&["C05"], "read-failed", opi, format!("{label}: get_reader failed while racing writers: {e}")));
                    HRes::Other
                }
            },
            COp::Iter => {
                let g = cas.read_index_state();
                let n = g.iter().count();
                let l = g.len();
                drop(g);
                if n != l {
                    sh.flag(fail(&["C05"], "iter-inconsistent", opi, format!("{label}: iter() yields {n} entries, len() = {l}")));
                }
                HRes::Other
            }
            COp::Checkpoint => {
                if let Err(e) = cas.checkpoint() {
                    sh.flag(fail(&["C05", "C15"], "write-failed", opi, format!("{label}: checkpoint failed: {e}")));
                }
                HRes::Other
            }
            COp::DeleteOrphans => {
                if let Some(st) = stats {
                    match st.delete_orphans() {
                        Ok(r) if r.errors.is_empty() => {}
                        Ok(r) => sh.flag(fail(&["C08"], "cleanup-errors", opi, format!("{label}: {:?}", r.errors))),
                        Err(e) => sh.flag(fail(&["C08"], "cleanup-failed", opi, format!("{label}: {e}"))),
                    }
                }
                HRes::Other
            }
            COp::Quarantine => {
                if let Some(st) = stats {
                    match st.quarantine_orphans(qdir) {
                        Ok(r) if r.errors.is_empty() => {}
                        Ok(r) => sh.flag(fail(&["C08"], "cleanup-errors", opi, format!("{label}: {:?}", r.errors))),
                        Err(e) => sh.flag(fail(&["C08"], "cleanup-failed", opi, format!("{label}: {e}"))),
                    }
                }
                HRes::Other
            }
            COp::DeleteOrphan { c } => {
                if let Some(st) = stats {
                    if let Err(e) = st.delete_orphan(&cassadilia::BlobHash(sh.hashes[*c])) {
                        sh.flag(fail(&["C08"], "cleanup-failed", opi, format!("{label}: {e}")));
                    }
                }
                HRes::Other
            }
            COp::OpenHold { .. } => HRes::Other,
        })
    }));
    let resp = stamp();
    match r {
        Ok(res) => sh.hist.lock().unwrap().push(HEv { task, op: op.clone(), inv, resp, res }),
        Err(p) => {
            // no call may panic; a panicking read also speaks for C17 ("no request panics")
            let props: &[&str] = if matches!(op, COp::GetRange { .. } | COp::GetSize { .. } | COp::Reader { .. }) { &["C15", "C05", "C04", "C17"] } else { &["C15", "C05", "C04"] };
            if !(p.is::<String>() || p.is::<&'static str>()) {
                // not a panic of the operation: shuttle is tearing the execution down (deadlock or a
                // stopped execution) and unwinds this suspended task by force - let it
                std::panic::resume_unwind(p);
            }
            let msg = panic_msg(p);
            if msg.contains("casim: hang") {
                // the scheduler's step budget ran out while this task was inside the call
                sh.flag(fail(&["C15"], "hang", opi, format!("{label} was still running after {STEP_BUDGET} scheduling steps of the execution (livelock: the call keeps re-trying)")));
            } else {
                sh.flag(fail(props, "panic", opi, format!("{label} panicked: {msg}")));
            }
            // shuttle does not support a task that goes on after a panic (locks released while
            // unwinding are closed for good and lose mutual exclusion): the execution ends here, the
            // shuttle way. The verdict travels in PANIC_FAIL; run_case_k picks it up.
            *PANIC_FAIL.lock().unwrap() = sh.failure.lock().unwrap().take();
            std::panic::resume_unwind(Box::new("casim: an operation panicked".to_string()));
        }
    }
}

/// C11 task body: race for the directory
#[allow(clippy::too_many_arguments)]
fn exec_open_hold<K: SimKey>(sh: &Shared<K>, db: &std::path::Path, wl: &Workload, task: u32, opi: usize, hold: u32, keep_clone: bool, recover: bool, n: u64) {
    let mut cfg = wl.cfg.clone();
    cfg.async_mode = false;
    if n > 0 {
        cfg.n = n;
    }
    let label = format!("task {task} op#{opi} open(n={})", cfg.n);
    let config = to_config(&cfg);
    let ev_from = with_sim(|s| s.trace.len());
    let r = catch_unwind(AssertUnwindSafe(|| {
        interpose::enter(|| if recover { Cas::<K>::open_with_recover(db, config.clone()).map(|(c, s)| (c, s)) } else { Cas::<K>::open(db, config.clone()).map(|c| (c, None)) })
    }));
    match r {
        Err(p) if !(p.is::<String>() || p.is::<&'static str>()) => std::panic::resume_unwind(p), // forced unwind of a torn-down execution
        Err(p) => sh.flag(fail(&["C11"], "panic", opi, format!("{label} panicked: {}", panic_msg(p)))),
        Ok(Err(LibError::AlreadyOpened)) => {
            // the losing open must not have modified anything: its slice of the trace may only
            // contain the open of LOCK (create/truncate of an empty file) and no-op mkdirs
            let bad: Vec<String> = with_sim(|s| {
                s.trace[ev_from..]
                    .iter()
                    .filter(|e| e.task == task && e.mutating && e.err == 0 && !(e.call == crate::sim::Call::OpenWrite && e.path == "db/LOCK"))
                    // on a directory that does not exist yet the LOCK file cannot be opened before the
                    // database directory and its two fixed sub-directories exist; creating them is not a
                    // modification of a database file (the property's observable: no write / rename /
                    // unlink other than opening LOCK)
                    .filter(|e| !(e.call == crate::sim::Call::Mkdir && matches!(e.path.as_str(), "db" | "db/staging" | "db/cas")))
                    .map(|e| format!("{} {}", e.call.name(), e.path))
                    .collect()
            });
            if !bad.is_empty() {
                sh.flag(fail(&["C11"], "loser-modified-files", opi, format!("{label}: failed with AlreadyOpened after issuing mutating calls: {bad:?}")));
            }
        }
        Ok(Err(LibError::Settings(e))) if format!("{e:?}").contains("ValidationFailed") && sh.created_n.lock().unwrap().is_some_and(|c| c != cfg.n) => {
            // C19: an open with a segment size other than the one the directory was created with is
            // rejected (when no owner is alive; with a live owner AlreadyOpened comes first)
        }
        Ok(Err(e)) => sh.flag(fail(&["C11", "C19"], "wrong-error", opi, format!("{label}: failed with {e} instead of AlreadyOpened or success"))),
        Ok(Ok((cas, stats))) => {
            {
                // C19: the first successful open fixes the creation-time segment size
                let mut c = sh.created_n.lock().unwrap();
                match *c {
                    None => *c = Some(cfg.n),
                    Some(created) if created != cfg.n => {
                        sh.flag(fail(&["C19"], "wrong-open-accepted", opi, format!("{label}: succeeded although the directory was created with num_ops_per_wal={created}")));
                    }
                    _ => {}
                }
            }
            {
                let mut l = sh.live_handles.lock().unwrap();
                *l += 1;
                if *l > 1 {
                    sh.flag(fail(&["C11"], "two-live-handles", opi, format!("{label}: succeeded while another handle on the same directory is alive")));
                }
            }
            let clone = if keep_clone { Some(cas.clone()) } else { None };
            for i in 0..hold {
                let k = &sh.keys[(i as usize + task as usize) % sh.keys.len()];
                let _ = catch_unwind(AssertUnwindSafe(|| interpose::enter(|| cas.get_size(k))));
                shuttle::thread::yield_now();
            }
            // the handle stays alive until its last reference (Cas, clone, OrphanStats) is gone; the
            // harness's counter is decremented just *before* that last drop, never after, so that a
            // legitimate open right after the release cannot be mistaken for a second live handle
            let others = clone.is_some() || stats.is_some();
            if !others {
                *sh.live_handles.lock().unwrap() -= 1;
            }
            interpose::enter(|| drop(cas));
            if others {
                // a clone / OrphanStats keeps the handle (and the lock) alive past the drop of `cas`
                shuttle::thread::yield_now();
                *sh.live_handles.lock().unwrap() -= 1;
                interpose::enter(|| {
                    drop(stats);
                    drop(clone);
                });
            }
        }
    }
}

#[derive(Default)]
struct ProgResults {
    violation: Option<(Failure, Vec<u32>, String)>,
    foreign: Option<Failure>,
    harness_error: Option<String>,
    executions: u64,
    events: u64,
    mutating: u64,
    fingerprints: Vec<u64>,
    probes: BTreeMap<String, u64>,
    site_counts: BTreeMap<String, u64>,
}

struct PreState {
    disk: Disk,
    model: BTreeMap<usize, usize>,
}

struct Tables<K> {
    keys: Vec<K>,
    contents: Vec<Arc<Vec<u8>>>,
    hashes: Vec<[u8; 32]>,
}

fn build_prestate<K: SimKey>(case: &Case, spec: &ConcSpec) -> Result<PreState, String> {
    // the sequential pre-history runs in its own single-task execution (the lock shim needs one)
    let out: Arc<StdMutex<Option<Result<PreState, String>>>> = Arc::new(StdMutex::new(None));
    let out2 = out.clone();
    let case2 = case.clone();
    let spec2 = spec.clone();
    let shared = Arc::new(StdMutex::new(SchedShared {
        sseed: 0,
        iteration: 0,
        total: 1,
        rng: Rng::new(0),
        strategy: Strategy::Sticky(1000),
        choices: Vec::new(),
        replay: Some(Vec::new()),
        steps: 0,
        preemptions: 0,
        hang: false,
        hang_record: None,
        prio: HashMap::new(),
        change_points: Vec::new(),
        total_steps: 0,
        total_preemptions: 0,
        strategy_counts: BTreeMap::new(),
    }));
    let mut cfg = shuttle::Config::new();
    cfg.stack_size = 1 << 20;
    cfg.max_steps = shuttle::MaxSteps::None;
    cfg.failure_persistence = shuttle::FailurePersistence::None;
    let runner = shuttle::Runner::new(CasimScheduler(shared), cfg);
    let r = catch_unwind(AssertUnwindSafe(|| {
        runner.run(move || {
            IN_EXEC.with(|c| c.set(false)); // no yields needed: single task
            let base = fresh_dir();
            let mut sim = crate::seqrun::new_sim(&base, &case2, 1);
            sim.mon.no_dangling = true;
            interpose::install(sim);
            parking_lot::reset_ids();
            let mut w = World::<K>::new(&base, &case2.workload);
            w.cfg.async_mode = false;
            let mut res: Result<(), Failure> = w.open_checked(0);
            if res.is_ok() {
                for (i, op) in case2.workload.ops.iter().enumerate() {
                    res = w.step_checked(i, op);
                    if res.is_err() {
                        break;
                    }
                }
            }
            w.readers.clear();
            w.close();
            let sim = interpose::uninstall().expect("sim");
            let model: BTreeMap<usize, usize> = w.model.iter().map(|(k, c)| (w.keys.iter().position(|x| x == k).unwrap(), *c)).collect();
            let mut disk = sim.disk.clone();
            // planted orphans: blobs of known contents that no key references
            for &c in &spec2.orphans {
                let h = w.hashes[c];
                if w.model.values().any(|&x| w.hashes[x] == h) {
                    continue;
                }
                let rel = format!("db/cas/{}", decode::cas_rel_path(&h));
                let parts: Vec<&str> = rel.split('/').collect();
                disk.dirs.insert(parts[..3].join("/"));
                disk.dirs.insert(parts[..4].join("/"));
                let bytes = Arc::new((*w.contents[c]).clone());
                disk.inodes.push(FileNode { cache: bytes.clone(), durable: bytes, dirty: false, ever_cas: true });
                let i = disk.inodes.len() - 1;
                disk.files.insert(rel, i);
            }
            remove_dir(&base);
            *out2.lock().unwrap() = Some(match res {
                Ok(()) => Ok(PreState { disk, model }),
                Err(f) => Err(format!("pre-history failed: {:?} {}", f.props, f.message)),
            });
        })
    }));
    if let Err(p) = r {
        let _ = interpose::uninstall();
        return Err(format!("pre-history execution panicked: {}", panic_msg(p)));
    }
    let x = out.lock().unwrap().take();
    x.unwrap_or_else(|| Err("pre-history produced no result".into()))
}

pub fn run_case(case: &Case) -> Outcome {
    crate::dispatch_key_type!(case.workload.key_type, run_case_k(case))
}

fn run_case_k<K: SimKey>(case: &Case) -> Outcome {
    let mut out = Outcome::default();
    let Mode::Conc(spec) = &case.mode else {
        out.harness_error = Some("not a concurrent case".into());
        return out;
    };
    parking_lot::set_observer(Some(lock_observer));
    *PANIC_FAIL.lock().unwrap_or_else(|e| e.into_inner()) = None;
    let pre = match build_prestate::<K>(case, spec) {
        Ok(p) => Arc::new(p),
        Err(e) => {
            // a failing pre-history is a sequential matter: report as foreign, not as harness error
            out.foreign = Some(fail(&["C01"], "prehistory-failed", 0, e));
            return out;
        }
    };
    let results = Arc::new(StdMutex::new(ProgResults::default()));
    let total = if spec.replay.is_some() { 1 } else { spec.schedules.max(1) };
    let shared = Arc::new(StdMutex::new(SchedShared {
        sseed: spec.sseed,
        iteration: 0,
        total,
        rng: Rng::new(spec.sseed),
        strategy: Strategy::Uniform,
        choices: Vec::new(),
        replay: spec.replay.clone(),
        steps: 0,
        preemptions: 0,
        hang: false,
        hang_record: None,
        prio: HashMap::new(),
        change_points: Vec::new(),
        total_steps: 0,
        total_preemptions: 0,
        strategy_counts: BTreeMap::new(),
    }));
    let mut cfg = shuttle::Config::new();
    cfg.stack_size = 1 << 20;
    cfg.max_steps = shuttle::MaxSteps::None;
    cfg.failure_persistence = shuttle::FailurePersistence::None;
    let runner = shuttle::Runner::new(CasimScheduler(shared.clone()), cfg);
    let tables = {
        let w0 = World::<K>::new(std::path::Path::new("/nonexistent"), &case.workload);
        Arc::new(Tables { keys: w0.keys.clone(), contents: w0.contents.clone(), hashes: w0.hashes.clone() })
    };
    let (case2, spec2, pre2, res2, sh2) = (Arc::new(case.clone()), Arc::new(spec.clone()), pre.clone(), results.clone(), shared.clone());
    LOCK_EDGES.with(|e| e.borrow_mut().clear());
    let r = catch_unwind(AssertUnwindSafe(|| {
        runner.run(move || {
            // once a violation has been recorded the remaining iterations are skipped quickly
            if res2.lock().unwrap().violation.is_some() || res2.lock().unwrap().harness_error.is_some() {
                return;
            }
            one_execution::<K>(&case2, &spec2, &pre2, &res2, &sh2, &tables);
        })
    }));
    IN_EXEC.with(|c| c.set(false));
    let mut res = std::mem::take(&mut *results.lock().unwrap());
    if let Err(p) = r {
        // shuttle panics on deadlock ("deadlock! blocked tasks: ...")
        let msg = panic_msg(p);
        let _ = interpose::uninstall();
        interpose::set_active(false);
        let s = shared.lock().unwrap();
        let stashed = PANIC_FAIL.lock().unwrap_or_else(|e| e.into_inner()).take();
        if let Some(mut f) = stashed {
            res.executions += 1;
            if is_own(&case.property, &f) {
                if !f.props.iter().any(|p| *p == case.property) {
                    f.props.push(case.property.clone());
                }
                res.violation = Some((f, s.choices.clone(), format!("{:?}", s.strategy)));
            } else if res.foreign.is_none() {
                res.foreign = Some(f);
            }
        } else if msg.contains("casim: hang") || s.hang {
            res.violation = Some((fail(&["C15"], "hang", 0, format!("execution exceeded {STEP_BUDGET} scheduling steps without finishing (livelock: some call keeps re-trying)")), s.choices.clone(), format!("{:?}", s.strategy)));
            res.executions += 1;
        } else if msg.contains("deadlock") {
            res.violation = Some((
                fail(&["C15"], "deadlock", 0, format!("no runnable task while some are unfinished: {}", msg.lines().next().unwrap_or(""))),
                s.choices.clone(),
                format!("{:?}", s.strategy),
            ));
            res.executions += 1;
        } else {
            res.harness_error = Some(format!("execution panicked outside any operation: {msg}"));
        }
    }
    {
        // an execution that was stopped because it exceeded the step budget (its main task never
        // reached the end of one_execution, so nothing was recorded there)
        let s = shared.lock().unwrap();
        let rec = s.hang_record.clone().or_else(|| if s.hang { Some((s.choices.clone(), format!("{:?}", s.strategy))) } else { None });
        if let Some((choices, strat)) = rec {
            let _ = interpose::uninstall();
            interpose::set_active(false);
            res.executions += 1;
            let f = fail(&["C15"], "hang", 0, format!("an execution was still running after {STEP_BUDGET} scheduling steps (livelock: some call keeps re-trying); blocked/unfinished tasks were abandoned"));
            if is_own(&case.property, &f) {
                if res.violation.is_none() {
                    res.violation = Some((f, choices, strat));
                }
            } else if res.foreign.is_none() && res.violation.is_none() {
                res.foreign = Some(f);
            }
        }
    }
    let s = shared.lock().unwrap();
    out.counters.runs = 1;
    out.counters.schedules = res.executions;
    out.counters.preemptions = s.total_preemptions;
    out.counters.events = res.events;
    out.counters.mutating_calls = res.mutating;
    out.fingerprints = res.fingerprints;
    out.site_counts = res.site_counts;
    out.harness_error = res.harness_error;
    out.foreign = res.foreign;
    for (k, v) in &s.strategy_counts {
        *out.site_counts.entry(format!("strategy:{k}")).or_insert(0) += v;
    }
    let edges: Vec<String> = LOCK_EDGES.with(|e| e.borrow().iter().map(|(a, b)| format!("lock-edge:{}->{}", lock_name(*a), lock_name(*b))).collect());
    for e in edges {
        *out.site_counts.entry(e).or_insert(0) += 1;
    }
    for (k, v) in res.probes {
        *out.site_counts.entry(format!("probe:{k}")).or_insert(0) += v;
    }
    if let Some((f, choices, strat)) = res.violation {
        out.violation = Some(f);
        out.log_digest = serde_json::to_string(&(choices, strat)).unwrap();
    } else {
        out.log_digest = format!("{:016x}", out.fingerprints.iter().fold(out.counters.events, |a, f| mix(a, *f)));
    }
    out
}

fn lock_name(id: usize) -> String {
    format!("{}#{}", ["state", "wal", "intents", "inflight"][id % LOCKS_PER_INDEX], id / LOCKS_PER_INDEX)
}

fn one_execution<K: SimKey>(case: &Arc<Case>, spec: &Arc<ConcSpec>, pre: &Arc<PreState>, results: &Arc<StdMutex<ProgResults>>, sched: &Arc<StdMutex<SchedShared>>, tables: &Arc<Tables<K>>) {
    let wl = &case.workload;
    let base = fresh_dir();
    if !spec.fresh_dir {
        pre.disk.materialise(&base, &BTreeSet::new()).expect("materialise pre-state");
    }
    let mut sim = Sim::new(&base, 5);
    sim.disk = Disk::from_dir(&base).expect("read pre-state");
    sim.mon.cas_immutable = true;
    sim.mon.no_dangling = true;
    sim.mon.wal_wellformed = true;
    sim.mon.n = wl.cfg.n;
    sim.mon.own = case.property.clone();
    sim.keep_trace = !spec.shared_handle;
    interpose::install(sim);
    parking_lot::reset_ids();
    IN_EXEC.with(|c| c.set(true));
    let sh = Arc::new(Shared::<K> {
        keys: tables.keys.clone(),
        contents: tables.contents.clone(),
        hashes: tables.hashes.clone(),
        hist: StdMutex::new(Vec::new()),
        failure: StdMutex::new(None),
        live_handles: StdMutex::new(0),
        created_n: StdMutex::new(if spec.fresh_dir { None } else { Some(wl.cfg.n) }),
        op_errors: std::sync::atomic::AtomicBool::new(false),
        prop: case.property.clone(),
    });
    let db = base.join("db");
    let qdir = base.join("q");
    let mut cfg = wl.cfg.clone();
    cfg.async_mode = false;
    cfg.scan = true;
    cfg.fail_on_integrity = false;
    let mut final_state: Option<MState> = None;
    if spec.shared_handle {
        let opened = catch_unwind(AssertUnwindSafe(|| interpose::enter(|| Cas::<K>::open_with_recover(&db, to_config(&cfg)))));
        match opened {
            Ok(Ok((cas, stats))) => {
                let stats = Arc::new(stats);
                let mut handles = Vec::new();
                for (ti, ops) in spec.tasks.iter().enumerate() {
                    let (sh, cas, stats, ops, qdir) = (sh.clone(), cas.clone(), stats.clone(), ops.clone(), qdir.clone());
                    handles.push(shuttle::thread::spawn(move || {
                        let task = ti as u32 + 1;
                        for (oi, op) in ops.iter().enumerate() {
                            exec_cop(&sh, &cas, (*stats).as_ref(), &qdir, task, oi, op);
                        }
                    }));
                }
                for h in handles {
                    if h.join().is_err() {
                        sh.flag(fail(&["C15"], "task-died", 0, "a task terminated by panic outside an operation".into()));
                    }
                }
                // ---- quiescence ----------------------------------------------------------------
                final_state = Some(final_checks(&sh, &cas, spec, pre));
                interpose::enter(|| {
                    drop(stats);
                    drop(cas);
                });
            }
            Ok(Err(e)) => sh.flag(fail(&["C02"], "open-failed", 0, format!("opening the pre-state failed: {e}"))),
            Err(p) => sh.flag(fail(&["C02"], "panic-in-open", 0, format!("opening the pre-state panicked: {}", panic_msg(p)))),
        }
    } else {
        let mut handles = Vec::new();
        for (ti, ops) in spec.tasks.iter().enumerate() {
            let (sh, ops, db, wl2) = (sh.clone(), ops.clone(), db.clone(), wl.clone());
            handles.push(shuttle::thread::spawn(move || {
                let task = ti as u32 + 1;
                for (oi, op) in ops.iter().enumerate() {
                    if let COp::OpenHold { hold, keep_clone, recover, n } = op {
                        exec_open_hold(&sh, &db, &wl2, task, oi, *hold, *keep_clone, *recover, *n);
                    }
                }
            }));
        }
        for h in handles {
            if h.join().is_err() {
                sh.flag(fail(&["C15", "C11"], "task-died", 0, "a task terminated by panic outside an operation".into()));
            }
        }
        // C19: the value the directory was created (and written) with is the only one accepted
        let created = *sh.created_n.lock().unwrap();
        if let Some(created) = created {
            cfg.n = created;
            let mut wrong = cfg.clone();
            wrong.n = created + 1;
            match catch_unwind(AssertUnwindSafe(|| interpose::enter(|| Cas::<K>::open(&db, to_config(&wrong))))) {
                Ok(Err(LibError::Settings(e))) if format!("{e:?}").contains("ValidationFailed") => {}
                Ok(Ok(c)) => {
                    interpose::enter(|| drop(c));
                    sh.flag(fail(&["C19"], "wrong-open-accepted", 0, format!("after the racing opens an open with num_ops_per_wal={} is accepted although the directory was created with {created}", created + 1)));
                }
                Ok(Err(e)) => sh.flag(fail(&["C19"], "wrong-error", 0, format!("open with a wrong segment size failed with {e} instead of the validation error"))),
                Err(p) => sh.flag(fail(&["C19"], "panic", 0, format!("open with a wrong segment size panicked: {}", panic_msg(p)))),
            }
        }
        // after the last owner is gone the next open succeeds and shows the pre-state
        let r = catch_unwind(AssertUnwindSafe(|| interpose::enter(|| Cas::<K>::open(&db, to_config(&cfg)))));
        match r {
            Ok(Ok(cas)) => {
                let n = interpose::enter(|| cas.read_index_state().len());
                if n != if spec.fresh_dir { 0 } else { pre.model.len() } {
                    sh.flag(fail(&["C11", "C02"], "data-changed", 0, format!("after racing opens the store has {n} keys, pre-state had {}", pre.model.len())));
                }
                interpose::enter(|| drop(cas));
            }
            Ok(Err(e)) => sh.flag(fail(&["C11", "C19"], "reopen-after-drop-failed", 0, format!("open after every handle was dropped, with the segment size the directory was created with ({}), failed: {e}", cfg.n))),
            Err(p) => sh.flag(fail(&["C11"], "panic", 0, format!("open after every handle was dropped panicked: {}", panic_msg(p)))),
        }
    }
    IN_EXEC.with(|c| c.set(false));
    let mut sim = interpose::uninstall().expect("sim");
    let mut res = results.lock().unwrap();
    res.executions += 1;
    res.events += sim.events;
    res.mutating += sim.step;
    for (k, v) in &sim.site_counts {
        *res.site_counts.entry(k.clone()).or_insert(0) += v;
    }
    let mut failure = sh.failure.lock().unwrap().take();
    let own = |f: &Failure| is_own(&case.property, f);
    if failure.as_ref().map_or(true, |f| !own(f)) {
        if let Some(v) = sim.mon.take_own() {
            failure = Some(Failure { props: vec![v.property.clone()], class: format!("{}:{}", v.monitor, v.class), op_index: 0, message: format!("step {}: {}", v.step, v.message) });
        }
    }
    if let Some(e) = sim.harness_error.take() {
        res.harness_error = Some(e);
    } else if let Err(e) = sim.disk.fidelity(&base) {
        res.harness_error = Some(format!("fidelity check failed (SimDisk != tmpfs): {e}"));
    }
    let s = sched.lock().unwrap();
    if s.hang {
        failure = Some(fail(&["C15"], "hang", 0, format!("execution exceeded {STEP_BUDGET} scheduling steps")));
    }
    // distinct-interleaving measure: fingerprint of the sequence of context switches
    let fp = SWITCH_FP.with(|c| c.get());
    if res.fingerprints.len() < 100_000 {
        res.fingerprints.push(mix(fp, final_state.as_ref().map_or(0, |m| m.iter().fold(7u64, |a, (k, c)| mix(a, (*k as u64) << 8 | *c as u64)))));
    }
    *res.probes.entry(format!("preemptions={}", s.preemptions.min(6))).or_insert(0) += 1;
    // make the aliasing of is_own() explicit in the reported failure, so that the driver, the
    // minimiser and the replay command all agree on whose violation this is
    if let Some(f) = failure.as_mut() {
        if is_own(&case.property, f) && !f.props.iter().any(|p| *p == case.property) {
            f.props.push(case.property.clone());
        }
    }
    match failure {
        Some(f) if own(&f) => {
            if res.violation.is_none() {
                res.violation = Some((f, s.choices.clone(), format!("{:?}", s.strategy)));
            }
        }
        Some(f) => {
            if res.foreign.is_none() {
                res.foreign = Some(f);
            }
        }
        None => {
            if let Some(v) = sim.mon.take_foreign() {
                if res.foreign.is_none() {
                    res.foreign = Some(Failure { props: vec![v.property.clone()], class: format!("{}:{}", v.monitor, v.class), op_index: 0, message: format!("step {}: {}", v.step, v.message) });
                }
            }
        }
    }
    drop(s);
    drop(res);
    remove_dir(&base);
}

/// quiescence: every key resolves to its blob (C04), history linearizable (C05), files exact (C07)
fn final_checks<K: SimKey>(sh: &Arc<Shared<K>>, cas: &Cas<K>, spec: &ConcSpec, pre: &PreState) -> MState {
    let mut final_state = MState::new();
    let items: Vec<(K, [u8; 32], u64)> = interpose::enter(|| cas.read_index_state().iter().map(|(k, it)| (k.clone(), it.blob_hash.0, it.blob_size)).collect());
    let mut referenced: BTreeSet<[u8; 32]> = BTreeSet::new();
    for (k, h, sz) in &items {
        referenced.insert(*h);
        let ki = sh.keys.iter().position(|x| x == k);
        match interpose::enter(|| cas.get(k)) {
            Ok(Some(b)) => {
                if blake3::hash(&b).as_bytes() != h || b.len() as u64 != *sz {
                    sh.flag(fail(&["C04", "C06"], "final-bytes", 0, format!("at quiescence key {k:?} reads {} bytes that do not match its recorded hash/size", b.len())));
                }
                match (ki, sh.content_of(&b)) {
                    (Some(ki), Some(c)) => {
                        final_state.insert(ki, c);
                    }
                    _ => sh.flag(fail(&["C04", "C05"], "final-unknown-value", 0, format!("at quiescence key {k:?} holds a value nobody wrote"))),
                }
            }
            Ok(None) => sh.flag(fail(&["C05"], "final-inconsistent", 0, format!("key {k:?} listed by iter() but get() says absent"))),
            Err(e) => sh.flag(fail(&["C04"], "final-dangling", 0, format!("at quiescence key {k:?} is in the index but its blob cannot be read: {e}"))),
        }
    }
    // C20 / C02 at quiescence: decoded by the independent reader, snapshot (+) log equal the index the
    // API shows - whatever checkpoints, roll-overs and commits interleaved before (a checkpoint that
    // slips between an operation's log append and its index update breaks exactly this)
    if !sh.op_errors.load(std::sync::atomic::Ordering::Relaxed) {
        match with_sim(|s| crate::monitors::parse_log(&s.disk)) {
            Ok(pl) => {
                let want: BTreeMap<Vec<u8>, ([u8; 32], u64)> = items.iter().map(|(k, h, sz)| (k.kb(), (*h, *sz))).collect();
                let got: BTreeMap<Vec<u8>, ([u8; 32], u64)> = pl.logged.iter().map(|(k, v)| (k.clone(), *v)).collect();
                if got != want {
                    let only_log: Vec<String> = got.keys().filter(|k| !want.contains_key(*k)).map(hex::encode).collect();
                    let only_idx: Vec<String> = want.keys().filter(|k| !got.contains_key(*k)).map(hex::encode).collect();
                    let differ: Vec<String> = got.iter().filter(|(k, v)| want.get(*k).is_some_and(|w| w != *v)).map(|(k, _)| hex::encode(k)).collect();
                    sh.flag(fail(
                        &["C20", "C02"],
                        "final-logged-state",
                        0,
                        format!("at quiescence snapshot (+) log, decoded independently, differ from the index (a restart would change the store): keys only on disk {only_log:?}, keys only in the index {only_idx:?}, keys with another value {differ:?}; snapshot version {:?}, highest logged version {}", pl.snapshot.as_ref().map(|s| s.version), pl.max_version),
                    ));
                }
            }
            Err(e) => sh.flag(fail(&["C20"], "final-log-undecodable", 0, format!("at quiescence: {e}"))),
        }
    }
    // linearizability of the recorded history, including the final state
    let hist = sh.hist.lock().unwrap().clone();
    if hist.len() <= 14 {
        let same = |a: usize, b: usize| sh.hashes[a] == sh.hashes[b];
        let mut ls = LinSearch { evs: &hist, same: &same, final_state: &final_state, seen: BTreeSet::new(), budget: 400_000 };
        let mut done = vec![0u32; hist.len()];
        let mut st: MState = pre.model.clone();
        let mut pend = BTreeMap::new();
        if !ls.search(&mut done, &mut st, &mut pend) {
            let mut h2 = hist.clone();
            h2.sort_by_key(|e| e.inv);
            let rendered: Vec<String> = h2.iter().map(|e| format!("t{} [{}..{}] {} -> {:?}", e.task, e.inv, e.resp, e.op.short(), e.res)).collect();
            sh.flag(fail(&["C05", "C04", "C13"], "not-linearizable", 0, format!("no sequential order of the calls consistent with real time explains the results and the final state {final_state:?} (pre-state {:?}):\n{}", pre.model, rendered.join("\n"))));
        }
    }
    // C07: files under cas/ == referenced blobs (+ planted orphans that no clean-up removed); staging empty
    let planted: BTreeSet<[u8; 32]> = spec.orphans.iter().map(|&c| sh.hashes[c]).collect();
    let (have, staging) = with_sim(|s| {
        let have: BTreeSet<String> = s.disk.list("db/cas/").into_iter().map(|(p, _)| p.clone()).collect();
        let staging: Vec<String> = s.disk.list("db/staging/").into_iter().map(|(p, _)| p.clone()).collect();
        (have, staging)
    });
    // only failed *operations* suspend the exact-file-set oracle; an earlier oracle failure (e.g. a
    // dangling reference, which is C04's) must not hide the missing file from C07
    let errors = sh.op_errors.load(std::sync::atomic::Ordering::Relaxed);
    if !errors {
        for h in &referenced {
            let p = format!("db/cas/{}", decode::cas_rel_path(h));
            if !have.contains(&p) {
                sh.flag(fail(&["C04", "C07"], "final-missing-blob", 0, format!("referenced blob {} is not in cas/ at quiescence", hex::encode(h))));
            }
        }
        for p in &have {
            let rel = &p["db/cas/".len()..];
            match decode::parse_cas_rel_path(rel) {
                Some(h) if referenced.contains(&h) || planted.contains(&h) => {}
                _ => sh.flag(fail(&["C07"], "leaked-blob", 0, format!("cas/ holds {p} at quiescence, which no key references"))),
            }
        }
        if !staging.is_empty() {
            sh.flag(fail(&["C07", "C13"], "staging-not-empty", 0, format!("staging/ not empty at quiescence: {staging:?}")));
        }
    }
    final_state
}

// ---------------------------------------------------------------------------------------------
// minimisation of concurrent cases

pub fn minimise(prop: &str, case: &Case, failure: &Failure, budget_s: u64, known: &[KnownFinding]) -> (Case, Failure, bool) {
    let start = std::time::Instant::now();
    let over = || start.elapsed().as_secs() >= budget_s;
    let class = failure.class.clone();
    let try_case = |c: &Case| -> Option<(Failure, Vec<u32>)> {
        let out = run_case(c);
        if out.harness_error.is_some() {
            return None;
        }
        match out.violation {
            Some(f) if f.class == class && f.props.iter().any(|p| p == prop) && crate::driver::matches_known(known, prop, &f).is_none() => {
                let (choices, _): (Vec<u32>, String) = serde_json::from_str(&out.log_digest).unwrap_or_default();
                Some((f, choices))
            }
            _ => None,
        }
    };
    // 1. pin the failing schedule: re-run to find it, then switch to explicit replay
    let mut best = case.clone();
    let mut best_f = failure.clone();
    let Some((f0, choices0)) = try_case(&best) else { return (best, best_f, false) };
    best_f = f0;
    if let Mode::Conc(s) = &mut best.mode {
        s.replay = Some(choices0);
    }
    if try_case(&best).is_none() {
        return (case.clone(), failure.clone(), false);
    }
    // 2. shrink the schedule: replace choices by "continue current" left to right, in blocks
    let get = |c: &Case| if let Mode::Conc(s) = &c.mode { s.replay.clone().unwrap_or_default() } else { Vec::new() };
    let mut block = (get(&best).len() / 2).max(1);
    while block >= 1 && !over() {
        let mut i = 0;
        while i < get(&best).len() && !over() {
            let mut ch = get(&best);
            let end = (i + block).min(ch.len());
            if ch[i..end].iter().all(|&x| x == DEFAULT) {
                i += block;
                continue;
            }
            for x in &mut ch[i..end] {
                *x = DEFAULT;
            }
            let mut c = best.clone();
            if let Mode::Conc(s) = &mut c.mode {
                s.replay = Some(ch);
            }
            if let Some((f, _)) = try_case(&c) {
                best = c;
                best_f = f;
            }
            i += block;
        }
        if block == 1 {
            break;
        }
        block /= 2;
    }
    // 3. drop operations of tasks (from the end), then pre-history operations
    let mut progress = true;
    while progress && !over() {
        progress = false;
        let ntasks = if let Mode::Conc(s) = &best.mode { s.tasks.len() } else { 0 };
        for t in 0..ntasks {
            let nops = if let Mode::Conc(s) = &best.mode { s.tasks[t].len() } else { 0 };
            for o in (0..nops).rev() {
                let mut c = best.clone();
                if let Mode::Conc(s) = &mut c.mode {
                    s.tasks[t].remove(o);
                    // the pinned schedule no longer fits exactly: search again from the seed
                    s.replay = None;
                    s.schedules = s.schedules.max(300);
                }
                if let Some((f, ch)) = try_case(&c) {
                    if let Mode::Conc(s) = &mut c.mode {
                        s.replay = Some(ch);
                    }
                    if try_case(&c).is_some() {
                        best = c;
                        best_f = f;
                        progress = true;
                        break;
                    }
                }
                if over() {
                    break;
                }
            }
        }
        for o in (0..best.workload.ops.len()).rev() {
            if over() {
                break;
            }
            let mut c = best.clone();
            c.workload.ops.remove(o);
            if let Mode::Conc(s) = &mut c.mode {
                s.replay = None;
                s.schedules = s.schedules.max(300);
            }
            if let Some((f, ch)) = try_case(&c) {
                if let Mode::Conc(s) = &mut c.mode {
                    s.replay = Some(ch);
                }
                if try_case(&c).is_some() {
                    best = c;
                    best_f = f;
                    progress = true;
                }
            }
        }
    }
    // trailing defaults carry no information
    if let Mode::Conc(s) = &mut best.mode {
        if let Some(r) = &mut s.replay {
            while r.last() == Some(&DEFAULT) {
                r.pop();
            }
        }
        s.schedules = 1;
    }
    (best, best_f, true)
}
