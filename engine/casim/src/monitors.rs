//! Online monitors evaluated after every intercepted call (DESIGN.md §2.6).

use std::collections::BTreeMap;

use crate::decode::{self, Logged, Segment, Snapshot, Tail};
use crate::sim::{Call, Disk, Ev};

#[derive(Clone, Debug, serde::Serialize, serde::Deserialize)]
pub struct MonViolation {
    pub property: String,
    pub monitor: String,
    pub step: u64,
    pub op: u32,
    pub class: String,
    pub message: String,
}

#[derive(Default)]
pub struct Monitors {
    pub cas_immutable: bool,
    pub wal_wellformed: bool,
    pub no_dangling: bool,
    /// num_ops_per_wal of the database under test (for the segment range rule)
    pub n: u64,
    /// tolerate an incomplete record at the very end of the newest segment (short-write noise,
    /// or a failed append in C14 runs)
    pub tolerate_torn_tail: bool,
    /// allowed values of the logged state (snapshot ⊕ log); empty = not checked
    pub allowed: Vec<Logged>,
    pub versions_seen: BTreeMap<u64, [u8; 32]>,
    pub max_snapshot_version: u64,
    pub acked_max: u64,
    /// first violation per property
    pub violations: Vec<MonViolation>,
    /// the property whose check is running: only its violations end a run early
    pub own: String,
    pub evaluations: u64,
    pub wal_parses: u64,
    pub max_record_len: usize,
    pub multi_key_removes: u64,
}

pub struct ParsedLog {
    pub snapshot: Option<Snapshot>,
    pub segments: BTreeMap<u64, Segment>,
    pub logged: Logged,
    pub max_version: u64,
}

/// Decode snapshot ⊕ log from the model's bytes. Err = the files are not even decodable.
pub fn parse_log(disk: &Disk) -> Result<ParsedLog, String> {
    let snapshot = match disk.bytes("db/index") {
        Some(b) => Some(decode::decode_snapshot(b).map_err(|e| format!("index snapshot not decodable: {e}"))?),
        None => None,
    };
    let mut segments = BTreeMap::new();
    for (p, node) in disk.list("db/") {
        let name = &p["db/".len()..];
        if name.contains('/') {
            continue;
        }
        if let Some(id) = decode::segment_id_of(name) {
            segments.insert(id, decode::decode_segment(&node.cache));
        }
    }
    let mut logged = Logged::new();
    let mut sv = 0;
    if let Some(s) = &snapshot {
        sv = s.version;
        for (k, h, sz) in &s.entries {
            logged.insert(k.clone(), (*h, *sz));
        }
    }
    let mut max_version = sv;
    for seg in segments.values() {
        for r in &seg.records {
            max_version = max_version.max(r.version);
            if r.version > sv {
                if let Ok(op) = &r.op {
                    decode::apply(&mut logged, op);
                }
            }
        }
    }
    Ok(ParsedLog { snapshot, segments, logged, max_version })
}

impl Monitors {
    fn flag(&mut self, property: &str, monitor: &str, class: &str, ev: &Ev, message: String) {
        if !self.flagged(property) {
            self.violations.push(MonViolation {
                property: property.into(),
                monitor: monitor.into(),
                step: ev.step,
                op: ev.op,
                class: class.into(),
                message,
            });
        }
    }

    pub fn on_event(&mut self, disk: &Disk, ev: &Ev) {
        if self.cas_immutable && !self.flagged("C06") {
            self.check_cas(disk, ev);
        }
        let touches_log = ev.mutating
            && ev.err == 0
            && (is_log_path(&ev.path) || (!ev.path2.is_empty() && is_log_path(&ev.path2)));
        let touches_cas = ev.mutating
            && ev.err == 0
            && (ev.path.starts_with("db/cas/") || ev.path2.starts_with("db/cas/"))
            && matches!(ev.call, Call::Unlink | Call::Rename);
        if (self.wal_wellformed && touches_log) || (self.no_dangling && (touches_log || touches_cas)) {
            self.check_log(disk, ev, touches_log);
        }
    }

    fn check_cas(&mut self, disk: &Disk, ev: &Ev) {
        self.evaluations += 1;
        let blob_depth = |p: &str| p.strip_prefix("db/cas/").is_some_and(|r| r.matches('/').count() == 2);
        match ev.call {
            Call::OpenWrite if ev.err == 0 && blob_depth(&ev.path) => {
                self.flag("C06", "MON-cas-immutable", "open-for-write", ev,
                    format!("file under cas/ opened with write/create/truncate flags: {}", ev.path));
            }
            Call::Write | Call::Truncate if ev.err == 0 && blob_depth(&ev.path) => {
                self.flag("C06", "MON-cas-immutable", "write-in-place", ev,
                    format!("{} on a file linked under cas/: {}", ev.call.name(), ev.path));
            }
            Call::Rename if ev.err == 0 && blob_depth(&ev.path2) => {
                let rel = &ev.path2["db/cas/".len()..];
                match (decode::parse_cas_rel_path(rel), disk.file(&ev.path2)) {
                    (Some(h), Some(node)) => {
                        if blake3::hash(&node.cache).as_bytes() != &h {
                            self.flag("C06", "MON-cas-immutable", "hash-mismatch", ev,
                                format!("file became visible at {} with {} bytes that do not hash to its name", ev.path2, node.cache.len()));
                        }
                    }
                    (None, _) => {
                        self.flag("C18", "MON-cas-immutable", "bad-path", ev,
                            format!("file placed at ill-formed cas path {}", ev.path2));
                    }
                    _ => {}
                }
            }
            _ => {}
        }
    }

    fn check_log(&mut self, disk: &Disk, ev: &Ev, touches_log: bool) {
        self.wal_parses += 1;
        let parsed = match parse_log(disk) {
            Ok(p) => p,
            Err(e) => {
                if self.wal_wellformed {
                    self.flag("C20", "MON-wal-wellformed", "snapshot-undecodable", ev, e);
                }
                return;
            }
        };
        if self.wal_wellformed && touches_log && !self.flagged("C20") {
            if ev.call == Call::Truncate {
                // a failed append is rolled back by cutting the segment: the version of the record
                // that was removed was never acknowledged and may be used again
                let keep = parsed.max_version.max(self.acked_max);
                self.versions_seen.retain(|v, _| *v <= keep);
            }
            self.check_wellformed(&parsed, ev);
        }
        if self.no_dangling && !self.flagged("C04") {
            for (k, (h, sz)) in &parsed.logged {
                let p = format!("db/cas/{}", decode::cas_rel_path(h));
                match disk.file(&p) {
                    None => {
                        self.flag("C04", "MON-no-dangling", "dangling", ev,
                            format!("logged state maps key {} to blob {} which is absent from cas/ (after {} {} {})",
                                hex::encode(k), hex::encode(h), ev.call.name(), ev.path, ev.path2));
                        return;
                    }
                    Some(node) if node.cache.len() as u64 != *sz => {
                        self.flag("C04", "MON-no-dangling", "size-mismatch", ev,
                            format!("key {} -> blob {} has {} bytes on disk, {} recorded", hex::encode(k), hex::encode(h), node.cache.len(), sz));
                        return;
                    }
                    _ => {}
                }
            }
        }
    }

    fn check_wellformed(&mut self, parsed: &ParsedLog, ev: &Ev) {
        let sv = parsed.snapshot.as_ref().map_or(0, |s| s.version);
        if sv < self.max_snapshot_version {
            self.flag("C20", "MON-wal-wellformed", "snapshot-regressed", ev,
                format!("snapshot version went back from {} to {}", self.max_snapshot_version, sv));
            return;
        }
        self.max_snapshot_version = sv;
        let last_id = parsed.segments.keys().next_back().copied();
        let mut prev_version = 0u64;
        let prior_max = self.versions_seen.keys().next_back().copied().unwrap_or(0);
        let mut fresh: Vec<(u64, [u8; 32])> = Vec::new();
        for (&id, seg) in &parsed.segments {
            if let Tail::Garbage { at, why } = &seg.tail {
                let torn = why.contains("payload short") || why.contains("partial header");
                if !(self.tolerate_torn_tail && torn && Some(id) == last_id) {
                    self.flag("C20", "MON-wal-wellformed", "incomplete-record", ev,
                        format!("segment {id}: at offset {at}: {why}"));
                    return;
                }
            }
            for r in &seg.records {
                self.max_record_len = self.max_record_len.max(r.end - r.start);
                if let Err(e) = &r.op {
                    self.flag("C20", "MON-wal-wellformed", "undecodable-op", ev,
                        format!("segment {id}: record v{} has a valid checksum but its payload does not decode: {e}", r.version));
                    return;
                }
                if let Ok(decode::LogOp::Remove { keys }) = &r.op {
                    if keys.len() > 1 {
                        self.multi_key_removes += 1;
                    }
                }
                if r.version <= prev_version {
                    self.flag("C20", "MON-wal-wellformed", "version-order", ev,
                        format!("segment {id}: version {} follows {}", r.version, prev_version));
                    return;
                }
                prev_version = r.version;
                if self.n > 0 {
                    let lo = id.saturating_mul(self.n);
                    let hi = (id + 1).saturating_mul(self.n);
                    if !(r.version > lo && r.version <= hi) {
                        self.flag("C20", "MON-wal-wellformed", "segment-range", ev,
                            format!("segment {id}: version {} outside ({lo}, {hi}]", r.version));
                        return;
                    }
                }
                match self.versions_seen.get(&r.version) {
                    Some(h) if *h != r.payload_hash => {
                        self.flag("C20", "MON-version-monotone", "version-reused", ev,
                            format!("version {} was written before with a different payload", r.version));
                        return;
                    }
                    Some(_) => {}
                    None => {
                        if r.version <= prior_max {
                            self.flag("C20", "MON-version-monotone", "version-reused", ev,
                                format!("new record has version {} but versions up to {} were already used", r.version, prior_max));
                            return;
                        }
                        fresh.push((r.version, r.payload_hash));
                    }
                }
            }
        }
        for (v, h) in fresh {
            self.versions_seen.insert(v, h);
        }
        // every acknowledged version above the snapshot version is still present
        let on_disk: std::collections::BTreeSet<u64> =
            parsed.segments.values().flat_map(|s| s.records.iter().map(|r| r.version)).collect();
        let missing: Vec<u64> = if self.acked_max > sv {
            self.versions_seen.range(sv + 1..=self.acked_max).map(|(&v, _)| v).filter(|v| !on_disk.contains(v)).collect()
        } else {
            Vec::new()
        };
        for v in missing {
            {
                self.flag("C20", "MON-wal-wellformed", "acked-version-missing", ev,
                    format!("acknowledged version {v} is above the snapshot version {sv} but in no segment"));
                return;
            }
        }
        if !self.allowed.is_empty() && !self.allowed.iter().any(|a| *a == parsed.logged) {
            self.flag("C20", "MON-wal-wellformed", "logged-state", ev,
                format!("snapshot ⊕ log decodes to {} keys, which is neither the acknowledged state nor the in-flight operation's result", parsed.logged.len()));
        }
    }

    pub fn flagged(&self, property: &str) -> bool {
        self.violations.iter().any(|v| v.property == property)
    }
    /// a violation of the property under check exists: the run can stop
    pub fn fatal(&self) -> bool {
        self.violations.iter().any(|v| v.property == self.own)
    }
    pub fn take_own(&mut self) -> Option<MonViolation> {
        let i = self.violations.iter().position(|v| v.property == self.own)?;
        Some(self.violations.remove(i))
    }
    pub fn take_foreign(&mut self) -> Option<MonViolation> {
        let i = self.violations.iter().position(|v| v.property != self.own)?;
        Some(self.violations.remove(i))
    }

    /// harness: an operation has been acknowledged; everything on disk now is acknowledged.
    pub fn ack(&mut self, disk: &Disk) {
        if let Ok(p) = parse_log(disk) {
            self.acked_max = self.acked_max.max(p.max_version);
        }
    }
}

fn is_log_path(p: &str) -> bool {
    p == "db/index" || (p.starts_with("db/") && p.ends_with("_index.wal") && p.matches('/').count() == 1)
}
