#!/bin/bash
# run_seeded_scratch.sh <seeded-id> [property ...] : like run_seeded.sh, but applies the patch to a
# scratch worktree (CASIM_REPO) instead of /repo, for use while something else is reading /repo.
set -uo pipefail
VERIF="$(cd "$(dirname "$0")/.." && pwd)"
id="$1"; shift
props="$*"; [ -n "$props" ] || props=$(echo "$id" | cut -d- -f1)
SCR="${SEEDED_SCRATCH:-/dev/shm/casim-seeded}"
if [ ! -d "$SCR/src" ]; then
  mkdir -p "$SCR/verif"; git -C /repo worktree prune
  git -C /repo worktree add -q --detach "$SCR/src" HEAD || exit 2
fi
cp "$VERIF/known_findings.json" "$SCR/verif/"
git -C "$SCR/src" checkout -q -- . ; git -C "$SCR/src" clean -fdq
git -C "$SCR/src" apply "$VERIF/seeded/$id/patch.diff" || exit 2
for p in $props; do
  start=$(date +%s)
  out=$(CASIM_REPO="$SCR/src" CASIM_BUILD_DIR="$SCR/build" CASIM_TARGET_DIR="$SCR/target" CASIM_VERIF_DIR="$SCR/verif" "$VERIF/check" "$p" ${SEEDED_ARGS:-} 2>&1); rc=$?
  echo "$id [$p] rc=$rc $(( $(date +%s) - start ))s $(echo "$out" | grep -m1 'class=' | cut -c1-220)"
done
git -C "$SCR/src" checkout -q -- .
