#!/usr/bin/env python3
"""aggregate_seeded.py <out.json> <results.jsonl>... : summary of the seeded-change regression
(engine/run_seeded_all.sh) next to what each seeded/<id>/meta.json records."""
import json, os, re, sys

def main():
    out = sys.argv[1]
    here = os.path.dirname(os.path.dirname(os.path.abspath(__file__)))
    rerun = {}
    for f in sys.argv[2:]:
        if not os.path.exists(f):
            continue
        for line in open(f):
            line = line.strip()
            if line:
                r = json.loads(line)
                rerun[r["id"]] = r
    rows = []
    for sid in sorted(os.listdir(os.path.join(here, "seeded"))):
        mp = os.path.join(here, "seeded", sid, "meta.json")
        if not os.path.exists(mp):
            continue
        m = json.load(open(mp))
        verdict = str(m.get("verdict", ""))
        row = {
            "id": sid,
            "written_against": re.findall(r"C\d\d", str(m.get("breaks_property", "")))[:1],
            "recorded_verdict": verdict[:160],
            "recorded_first_class": m.get("first_violation_class"),
            "recorded_caught_by": m.get("caught_by", m.get("breaks_property")),
        }
        r = rerun.get(sid)
        if r:
            row["regression_run"] = {k: r[k] for k in r if k != "id"}
        rows.append(row)
    detected_recorded = sum(1 for r in rows if not r["recorded_verdict"].lower().startswith("not detected"))
    rer = [r for r in rows if "regression_run" in r and "detected" in r["regression_run"]]
    summary = {
        "seeded_changes": len(rows),
        "recorded_detected": detected_recorded,
        "recorded_not_detected": [r["id"] for r in rows if r["recorded_verdict"].lower().startswith("not detected")],
        "regression_runs": len(rer),
        "regression_detected": sum(1 for r in rer if r["regression_run"]["detected"]),
        "regression_not_detected": [r["id"] for r in rer if not r["regression_run"]["detected"]],
        "note": "regression_run = engine/run_seeded_all.sh against a scratch worktree with the machinery of the commit named in 'machinery_commit'; ids without a regression_run were evaluated individually when they were delivered (meta.json: what_i_ran)",
        "machinery_commit": os.environ.get("MACHINERY_COMMIT", ""),
        "changes": rows,
    }
    json.dump(summary, open(out, "w"), indent=1)
    print(f"{summary['regression_detected']}/{summary['regression_runs']} regression runs detected; recorded: {detected_recorded}/{len(rows)}")

if __name__ == "__main__":
    main()
