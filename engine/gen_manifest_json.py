#!/usr/bin/env python3
"""Regenerates /verif/MANIFEST.json from the table below (kept in one place so it stays valid)."""
import json, os
HERE = os.path.dirname(os.path.abspath(__file__))
VERIF = os.path.dirname(HERE)

CLAIMED = {
  "C01": dict(level="exploration", ref="3 C01", technique="deterministic simulation: seeded histories vs. reference map, short-I/O + EINTR noise",
      text="Seeded search over sequential histories (8 key types, all chunkings, both sync modes, all segment sizes) executed against the real store through the libc seam, compared call by call with a BTreeMap reference model and audited (iter/range/len/contains/known_blobs/stats/files) every few steps; one third of runs add short reads/writes and EINTR which must be invisible. Sampling, not proof.",
      note="Trusts the blake3 crate, the harness's reference model and SimDisk (checked against tmpfs after every run). Real parking_lot, one client thread."),
}

NOT_YET = {}

def main():
    props = [json.loads(l) for l in open(os.path.join(VERIF, "properties.jsonl"))]
    checks, na = [], []
    for p in props:
        pid = p["id"]
        if pid in CLAIMED:
            c = CLAIMED[pid]
            checks.append({
                "property_id": pid,
                "quick_cmd": f"./check {pid} --tier quick",
                "thorough_cmd": f"./check {pid} --tier thorough",
                "evidence_file": f"evidence/{pid}.json",
                "replay_cmd_template": "./check replay {path}",
                "engine": c.get("engine", "casim-seq"),
                "level_claimed": {"category": c["level"], "text": c["text"], "design_ref": c["ref"]},
                "level_note": c["note"],
                "technique": c["technique"],
            })
        else:
            na.append({"property_id": pid, "reason": NOT_YET.get(pid, "not claimed yet: its check is still under construction in this round (see DESIGN.md §3 for the planned procedure); it is a simulation target and will be claimed once the check exists")})
    m = {
        "version": 1,
        "setup_cmd": "./check build",
        "hooks": {
            "guard": "cassadilia_verif",
            "enable": "none needed: the seams are libc interposition inside the harness binary and a parking_lot shim selected by a shadow manifest; /repo is compiled unmodified",
            "baseline_off_cmd": "cd /repo && cargo test --workspace --no-fail-fast --offline",
            "source_commits": [],
            "add_only": True,
        },
        "engines": [
            {"name": "casim-seq", "path": "engine/casim", "serves_properties": [c["property_id"] for c in checks if c["engine"] == "casim-seq"], "kind_free_text": "deterministic simulation, sequential build: real sources + libc interposer + SimDisk (crash/power images, fault plan), one simulated client"},
            {"name": "casim-conc", "path": "engine/casim (feature conc) + engine/plshim", "serves_properties": [c["property_id"] for c in checks if c["engine"] != "casim-seq"], "kind_free_text": "deterministic simulation, concurrent build: shuttle coroutines under the harness's seeded scheduler, parking_lot shim, every lock op and libc call a scheduling point"},
        ],
        "checks": checks,
        "not_applicable": na,
        "notes": "All checks: exit 0 held / 1 VIOLATION / 2 harness error. VERIF_SEED and VERIF_TIER honoured. Known findings: known_findings.json.",
    }
    json.dump(m, open(os.path.join(VERIF, "MANIFEST.json"), "w"), indent=1)

if __name__ == "__main__":
    main()
