#!/usr/bin/env python3
"""Regenerates /verif/MANIFEST.json from the table below (kept in one place so it stays valid)."""
import json, os
HERE = os.path.dirname(os.path.abspath(__file__))
VERIF = os.path.dirname(HERE)

SEQ_NOTE = ("Trusts the blake3 crate, the harness's reference model / independent decoders and SimDisk "
            "(compared with tmpfs after every run). Real parking_lot, one simulated client thread; "
            "Async fdatasync worker and rayon are real and uncontrolled. Sampling, not proof.")
CONC_NOTE = ("Caller threads are shuttle coroutines; parking_lot is replaced by a writer-preferring shim over shuttle "
             "primitives (fairness not modelled); every lock operation and intercepted libc call is a scheduling point; "
             "Sync mode only (the Async worker thread is outside the controlled schedule). Sampling of schedules, not proof.")

def C(level, ref, technique, text, note=SEQ_NOTE, engine="casim-seq"):
    return dict(level=level, ref=ref, technique=technique, text=text, note=note, engine=engine)

CLAIMED = {
  "C01": C("exploration", "3 C01", "deterministic simulation: seeded histories vs. reference map, short-I/O + EINTR noise",
      "Seeded search over sequential histories (8 key types, all chunkings, both sync modes, all segment sizes) executed against the real store through the libc seam, compared call by call with a BTreeMap reference model and audited (iter/range/len/contains/known_blobs/stats/files) every few steps; one third of runs add short reads/writes and EINTR which must be invisible."),
  "C02": C("exploration", "3 C02", "deterministic simulation: restart placement at WAL segment boundaries, before/after observation equality",
      "Histories with clean restarts and checkpoints placed preferentially at version mod N in {0,1,N-1}, repeated restarts, N=1; the full observable state before drop, after open and in the model must agree; C20 monitors watch versions/segments across restarts. Concurrent part: at the end of every error-free seeded schedule of writer programs with explicit and roll-over checkpoints, snapshot+log decoded independently must equal the index the API shows (a restart would change nothing).",
      SEQ_NOTE + " Concurrent part: " + CONC_NOTE, "casim-seq"),
  "C03": C("fault_enumeration", "3 C03", "deterministic simulation: process-kill cut at every mutating-call boundary, recovery by the real code, nested cuts",
      "For each sampled history every boundary between mutating libc calls (incl. first-time initialisation, checkpoints, roll-over, drop) is a kill point; SimDisk materialises the image, the real open_with_recover recovers it and the result must be M_{i-1} or M_i with no missing/corrupted blob; each recovery's own trace is cut again; sampled images continue with clean-up and a usability suffix."),
  "C04": C("exploration", "3 C04", "deterministic simulation: seeded schedules of writer programs, no-dangling monitor at every step",
      "Small writer programs (same key / same content collisions, removes, range removes, checkpoints, clean-up) run under uniform/sticky/PCT/targeted seeded schedules at lock-operation and syscall granularity; after every step the logged state (snapshot+WAL, decoded independently) must resolve to existing blobs of the right size; end state readable and linearizable.",
      CONC_NOTE, "casim-conc"),
  "C05": C("exploration", "3 C05", "deterministic simulation: seeded schedules + Wing-Gong linearizability check against a map model",
      "Readers race overwriting/removing writers on one key with unique values; every read must be Ok and equal one written value in full; the stamped history must be linearizable against the map model (remove/remove_range with separate observe and apply points) and explain the final state.",
      CONC_NOTE, "casim-conc"),
  "C06": C("exploration", "3 C06", "deterministic simulation: cas-immutability monitor at every call, crash/power images, long-lived readers",
      "MON-cas-immutable (no open-for-write/write/truncate on cas paths; content hashes to its name when it becomes visible) at every intercepted call of sequential histories, crash-image recoveries, power-loss images and concurrent schedules; readers opened before overwrite/remove must stream the complete original content.",
      SEQ_NOTE + " Concurrent part: " + CONC_NOTE, "casim-seq"),
  "C07": C("exploration", "3 C07", "deterministic simulation: exact file-set oracle after every step and at the end of every schedule",
      "cas/ must hold exactly the referenced blobs and staging/ must be empty after every mutating step of every fault-free history, after clean restarts (scan reports nothing) and at the end of every error-free concurrent schedule.",
      SEQ_NOTE + " Concurrent part: " + CONC_NOTE, "casim-seq"),
  "C08": C("exploration", "3 C08", "deterministic simulation: crash images + planted garbage (scan/clean-up oracle) and seeded schedules of clean-up racing puts",
      "Sequential: final and crash images of seeded histories get planted garbage (arbitrary well-formed hashes, ill-formed and non-canonical names, stray files at all depths, deleted/resized/flipped referenced blobs, leftover staging files and a staging subdirectory); the five OrphanStats lists and total_blobs must equal the checker's own directory/index comparison, and one of delete_orphans / quarantine_orphans / delete_orphan must report the expected counters and change exactly the reported garbage. Concurrent: clean-up races puts of the orphaned content (also two writers on one key) and removes; a blob that a put committed must never be removed.",
      SEQ_NOTE + " Concurrent part: " + CONC_NOTE, "casim-seq"),
  "C09": C("fault_enumeration", "3 C09", "deterministic simulation: power-loss images = cut x loss sets over SimDisk's durable view",
      "Sync mode: for sampled cuts all 2^d choices of which dirty files lose their unsynced bytes (d<=4; sampled beyond) are materialised from SimDisk's durable view, recovered by the real code and judged like C03; exactly the property's fault model (all-or-nothing per file, directory operations in order)."),
  "C10": C("fault_enumeration", "3 C10", "deterministic simulation: byte-level truncation and flip of the un-checkpointed log at rest",
      "For sampled histories with an un-checkpointed tail: every truncation offset (<=2 KiB tails) and every checksum/payload byte x 4 values (<=1 KiB) is applied to a copy; open must fail or show exactly the state after the undamaged prefix, and never panic."),
  "C11": C("exploration", "3 C11", "deterministic simulation: seeded schedules of racing opens at syscall granularity + handshake-sequenced real processes",
      "Threads part: 2-4 tasks race open/open_with_recover on one directory with clones and OrphanStats kept past the drop; at most one live handle, losers fail with AlreadyOpened without any mutating call except opening LOCK, a final open succeeds. Process part: real child processes sequenced by pipe handshakes: the loser fails and leaves every file byte-identical, after the owner exits or is SIGKILLed the next open succeeds and reads the owner's acknowledged write, two children released together give exactly one winner.",
      CONC_NOTE + " flock semantics are the kernel's (real). The process part is deterministic by construction of its handshakes, not by a controlled scheduler.", "casim-conc"),
  "C12": C("exploration", "3 C12", "deterministic simulation: refcount/stat oracle after every audit, restart and crash recovery",
      "known_blobs, contains_blob_hash, unique_blobs, total_bytes, get_size versus model multiplicities after audits, restarts and judged crash recoveries; the build has overflow checks on so an underflow panics."),
  "C13": C("exploration", "3 C13", "deterministic simulation: aborted transactions at every position + abort racing commit under seeded schedules",
      "Sequential: directory fingerprint (cas/, staging/, WAL bytes, snapshot) and reads identical before/after every abandoned transaction, also after restart. Concurrent: a transaction abandoned at a scheduler-chosen point while others commit/remove; the final state must be what the committing tasks alone produce.",
      SEQ_NOTE + " Concurrent part: " + CONC_NOTE, "casim-seq"),
  "C14": C("fault_enumeration", "3 C14", "deterministic simulation: one failed mutating libc call per operation (one, or two in different operations, per run), per-key {old,new} uncertainty model, later operations + clean reopen",
      "A dry run counts the fallible mutating calls of the history (open/create, write, fsync/fdatasync, rename, unlink, mkdir, ftruncate); each selected one is failed once with EIO/ENOSPC/EMFILE/EACCES without side effect; the faulted operation may fail or succeed but not panic; 2-6 later operations must succeed, a clean reopen must succeed, and every key must show a possible and readable value (narrow uncertainty: only keys of the failed operation, collapsed only by later operations that logged a record for the key). One run in three fails a second call in a later operation (the g-th fallible call after the faulted operation returned, g<9): two failed operations in a row, each hit by a single failing call."),
  "C15": C("exploration", "3 C15", "deterministic simulation: seeded schedules with deadlock/hang detection by the controlled scheduler",
      "Programs with the full call mix incl. explicit and roll-over checkpoints and clean-up; every execution must end with all tasks finished (no runnable task = deadlock; > 30000 steps = hang); the writer-preferring RwLock shim makes reader-recursion deadlocks reachable; the held->acquired lock graph is reported.",
      CONC_NOTE, "casim-conc"),
  "C16": C("exploration", "3 C16 + 7", "deterministic simulation: forged snapshots / log records / settings between two opens (F-forge), counting allocator",
      "Storage-facing part only: every key/hash/size the API writes round-trips through the disk in all other checks; here canonical snapshots of arbitrary entries (extreme sizes, 0..200 entries, all key types) must load exactly and be written back identically; truncations, boundary counts/lengths, bit flips, trailing bytes, keys invalid for the key type, WAL records with valid checksums over malformed payloads, forged version/length fields, an end marker in the middle and malformed settings files must give Ok or Err without panic; no single allocation above 2x input + 64 KiB while decoding. The pure for-all-values round-trip law is not a simulation target (DESIGN.md 7)."),
  "C17": C("exploration", "3 C17", "deterministic simulation: short-read injection over an enumerated (L,start,end) cube + range reads racing overwrites under seeded schedules",
      "get_range is a pread loop: all (start,end) in [0,L+2]^2 for L=0..6 exhaustively, L around buffer sizes and up to 2.5 MB with boundary bounds up to 2^64-1, half the runs with every pread shortened; results must equal the slice, inverted ranges rejected exactly when start < L, readers drain to L bytes, no single allocation above L + 64 KiB. Concurrent part: range reads racing overwrites that change the length must return the slice of one value the key held.",
      SEQ_NOTE + " Concurrent part: " + CONC_NOTE, "casim-seq"),
  "C18": C("exploration", "3 C18", "deterministic simulation: chunking enumeration + short-write/EINTR injection on the staging stream",
      "All 2^(len-1) chunkings for len<=5 (plus empty-chunk variants), random chunkings incl. > 8 KiB chunks under short writes and EINTR; committed hash == blake3(content), size == len, file at the checker-computed path with exact bytes, no other file. Path bijection only on hashes that occur (pure law: see DESIGN.md 7)."),
  "C19": C("exploration", "3 C19", "deterministic simulation: rejected opens inside histories (byte-identical image + call trace), crash inside the pre-created tree, racing first opens under seeded schedules",
      "Opens with a different num_ops_per_wal, a forged stored version, or a flipped pre-create choice at random positions of populated histories; rejected opens must leave SimDisk byte-identical and issue no mutating call but opening LOCK; the next correct open shows the model. A run class kills first-time initialisation with pre_create_cas_dirs inside the 65 792 mkdirs and then uses the recovered store. Concurrent part: tasks race first opens of a fresh directory with different segment sizes; only the value of the first successful open is accepted afterwards.",
      SEQ_NOTE + " Concurrent part: " + CONC_NOTE, "casim-seq"),
  "C20": C("exploration", "3 C20", "deterministic simulation: on-disk well-formedness monitor with an independent decoder after every mutating call",
      "After every mutating call that touches the snapshot or a segment, in plain histories, restarts and crash-image recoveries: complete checksummed records, at most one trailing end marker, strictly increasing versions within segment ranges, never reused across restarts, snapshot decodable and monotone, snapshot+log equal to the acknowledged or in-flight state. A fault-injecting run class (one failed call, in half of its runs a second one in a later operation) keeps the monitors on. Concurrent part: the same monitors at every step of seeded schedules of writer programs with checkpoints, and at quiescence snapshot+log decoded independently == the index the API shows.",
      SEQ_NOTE + " Concurrent part: " + CONC_NOTE, "casim-seq"),
}

NOT_YET = {
}

def main():
    props = [json.loads(l) for l in open(os.path.join(VERIF, "properties.jsonl"))]
    checks, na = [], []
    for p in props:
        pid = p["id"]
        if pid in CLAIMED:
            c = CLAIMED[pid]
            checks.append({
                "property_id": pid,
                "quick_cmd": f"./check {pid} --tier quick",
                "thorough_cmd": f"./check {pid} --tier thorough",
                "evidence_file": f"evidence/{pid}.json",
                "replay_cmd_template": "./check replay {path}",
                "engine": c["engine"],
                "level_claimed": {"category": c["level"], "text": c["text"], "design_ref": c["ref"]},
                "level_note": c["note"],
                "technique": c["technique"],
            })
        else:
            na.append({"property_id": pid, "reason": NOT_YET.get(pid, "not claimed yet: check under construction")})
    m = {
        "version": 1,
        "setup_cmd": "./check build",
        "hooks": {
            "guard": "cassadilia_verif",
            "enable": "none needed: the seams are libc interposition inside the harness binary and a parking_lot shim selected by a shadow manifest; /repo is compiled unmodified (guard name reserved, unused)",
            "baseline_off_cmd": "cd /repo && cargo test --workspace --no-fail-fast --offline",
            "source_commits": [],
            "add_only": True,
        },
        "engines": [
            {"name": "casim-seq", "path": "engine/casim", "serves_properties": [c["property_id"] for c in checks if c["engine"] == "casim-seq"], "kind_free_text": "deterministic simulation, sequential build: real sources + libc interposer + SimDisk (crash/power images, fault plan), one simulated client"},
            {"name": "casim-conc", "path": "engine/casim (feature conc) + engine/plshim", "serves_properties": sorted(set([c["property_id"] for c in checks if c["engine"] != "casim-seq"] + ["C06", "C07", "C08", "C11", "C13", "C17", "C19"])), "kind_free_text": "deterministic simulation, concurrent build: shuttle coroutines under the harness's seeded scheduler, parking_lot shim, every lock op and libc call a scheduling point"},
        ],
        "checks": checks,
        "not_applicable": na,
        "notes": "All checks: exit 0 held / 1 VIOLATION / 2 harness error. VERIF_SEED and VERIF_TIER honoured. Known findings and fixed defects: known_findings.json. Seven genuine defects were repaired in /repo with fix: commits (8633b4a, 2b3c92e, b68755c, da69cee, aebf71c, 8612dc6, c75bb84).",
    }
    json.dump(m, open(os.path.join(VERIF, "MANIFEST.json"), "w"), indent=1)

if __name__ == "__main__":
    main()
